// Command gosymx drives the symbolic interpreter over harnesses injected into
// the repository under test by overlay.
package main

import (
	"encoding/json"
	"flag"
	"fmt"
	"os"

	"gosymx/driver"
)

func main() {
	if len(os.Args) < 2 {
		fmt.Fprintln(os.Stderr, "usage: gosymx run|check|selftest|replay ...")
		os.Exit(2)
	}
	switch os.Args[1] {
	case "run":
		fs := flag.NewFlagSet("run", flag.ExitOnError)
		repo := fs.String("repo", "/repo", "repository root")
		hdir := fs.String("harness", "/verif/harness", "harness directory")
		pkg := fs.String("pkg", "", "package directory relative to repo")
		fn := fs.String("fn", "", "harness function")
		workers := fs.Int("workers", 16, "workers")
		trace := fs.Bool("trace", false, "trace calls")
		tracei := fs.Bool("tracei", false, "trace instructions")
		solver := fs.String("solver", "", "solver")
		maxPaths := fs.Int("maxpaths", 0, "")
		native := fs.Int("native", 8, "number of path samples to validate natively")
		timeout := fs.Int("timeout", 0, "seconds")
		bounds := fs.String("bounds", "", "name=val,name=val")
		maxdec := fs.Int("maxdec", 0, "max decisions per path")
		ccase := fs.String("case", "", "run one concrete case: name=val,... (choices as name=val too)")
		fs.Parse(os.Args[2:])
		h := &driver.Harness{Pkg: *pkg, Fn: *fn, Name: *fn, Bounds: driver.ParseBounds(*bounds), MaxDecisions: *maxdec}
		opt := &driver.Options{Repo: *repo, HarnessDir: *hdir, Workers: *workers, TraceCalls: *trace, TraceInstr: *tracei,
			Solver: *solver, MaxPaths: *maxPaths, NativeSamples: *native, TimeoutS: *timeout, Verbose: true}
		if *ccase != "" {
			os.Exit(driver.RunConcrete(h, opt, *ccase))
		}
		res, err := driver.RunHarness(h, opt)
		if err != nil {
			fmt.Fprintln(os.Stderr, "error:", err)
			os.Exit(2)
		}
		driver.PrintResult(os.Stdout, res)
		if len(res.Run.Violations) > 0 {
			os.Exit(1)
		}
	case "check":
		os.Exit(driver.CheckMain(os.Args[2:]))
	case "props":
		enc := json.NewEncoder(os.Stdout)
		enc.SetIndent("", " ")
		enc.Encode(driver.Properties)
	case "selftest":
		os.Exit(driver.SelfTestMain(os.Args[2:]))
	default:
		fmt.Fprintln(os.Stderr, "unknown subcommand", os.Args[1])
		os.Exit(2)
	}
}
