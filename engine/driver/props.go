package driver

// Properties is the registry of checks: for every claimed property the
// harnesses that decide it and the bounds of each tier.
var Properties = map[string]*Property{
	"C13": {
		ID: "C13",
		Harnesses: []HarnessSpec{
			{Pkg: "internal/binutils", Fn: "VerifC13ObjAddr",
				Quick: map[string]int{"c13.maxseg": 2}, Thorough: map[string]int{"c13.maxseg": 3},
				QuickTimeoutS: 240, ThoroughTimeoutS: 1500,
				What: "(*file).ObjAddr = computeBase/findProgramHeader/ProgramHeadersForMapping/HeaderForFileOffset/GetBase: result is runtime address minus load bias, or an error only if the owning segment is not unique by file offset; all segment fields, bias, split point and address symbolic"},
		},
		Assumptions: []string{
			"linker well-formedness of PT_LOAD headers: p_offset ≡ p_vaddr (mod 4096), segments ascending and disjoint in memory and in the file, 0 < memsz, filesz ≤ memsz, everything < 2^47",
			"loader model: mapping of the executable segment = [bias+pagedown(vaddr), bias+pageup(vaddr+filesz)) at file offset pagedown(off), optionally split once at a page boundary; bias page aligned (ET_DYN) or 0 (ET_EXEC, vaddr ≥ 4096)",
			"sampled address lies in the file-backed bytes of the executable segment",
		},
		Stubs:   []string{"elfOpen hook returns a harness-built *elf.File (the repo's own test hook); (*elf.File).Close is a no-op"},
		Outside: []string{"kernel images and the kernel heuristics' empirical correctness", "more than the stated number of PT_LOAD segments", "Mach-O and PE files", "the external addr2line/llvm-symbolizer/nm tools"},
	},
}
