package driver

// Properties is the registry of checks: for every claimed property the
// harnesses that decide it and the bounds of each tier.
var Properties = map[string]*Property{
	"C13": {
		ID: "C13",
		Harnesses: []HarnessSpec{
			{Pkg: "internal/binutils", Fn: "VerifC13ObjAddr",
				Quick: map[string]int{"c13.maxseg": 2}, Thorough: map[string]int{"c13.maxseg": 3},
				QuickTimeoutS: 240, ThoroughTimeoutS: 1500,
				What: "(*file).ObjAddr = computeBase/findProgramHeader/ProgramHeadersForMapping/HeaderForFileOffset/GetBase: result is runtime address minus load bias, or an error only if the owning segment is not unique by file offset; all segment fields, bias, split point and address symbolic"},
		},
		Assumptions: []string{
			"linker well-formedness of PT_LOAD headers: p_offset ≡ p_vaddr (mod 4096), segments ascending and disjoint in memory and in the file, 0 < memsz, filesz ≤ memsz, everything < 2^47",
			"loader model: mapping of the executable segment = [bias+pagedown(vaddr), bias+pageup(vaddr+filesz)) at file offset pagedown(off), optionally split once at a page boundary; bias page aligned (ET_DYN) or 0 (ET_EXEC, vaddr ≥ 4096)",
			"sampled address lies in the file-backed bytes of the executable segment",
		},
		Stubs:   []string{"elfOpen hook returns a harness-built *elf.File (the repo's own test hook); (*elf.File).Close is a no-op"},
		Outside: []string{"kernel images and the kernel heuristics' empirical correctness", "more than the stated number of PT_LOAD segments", "Mach-O and PE files", "the external addr2line/llvm-symbolizer/nm tools"},
	},
	"C15": {
		ID: "C15",
		Harnesses: []HarnessSpec{
			{Pkg: "internal/measurement", Fn: "VerifC15ScaleBytes", Solver: "z3", Quick: map[string]int{"c15.nfrom": 4, "c15.nto": 4}, Thorough: map[string]int{"c15.nfrom": 14, "c15.nto": 14}, QuickTimeoutS: 240, ThoroughTimeoutS: 900,
				What: "measurement.Scale on the bytes family for every int64 (incl. MinInt64), nfrom source spellings x (nto explicit targets | auto | minimum): exact ratio, identity, negation, unit in family, auto unit keeps 1 <= |r| < 1024, magnitude preserved"},
			{Pkg: "internal/measurement", Fn: "VerifC15ScaleTime", Solver: "z3", Quick: map[string]int{"c15.timebits": 40}, Thorough: map[string]int{"c15.timebits": 62}, QuickTimeoutS: 120, ThoroughTimeoutS: 600,
				What: "measurement.Scale on the time family: explicit targets equal the reference formula value*F(from)/F(to) (differential), auto unit stays in the family and keeps the magnitude >= 1"},
			{Pkg: "internal/measurement", Fn: "VerifC15Unknown", Solver: "z3", QuickTimeoutS: 120, ThoroughTimeoutS: 300,
				What: "unknown source units never convert and never change the value for every int64; a cross-family request falls back to the family default"},
		},
		Assumptions: []string{
			"float64 arithmetic is IEEE-754 binary64 with round-to-nearest-even (host FPU = solver FP theory)",
			"exact term rewrites used by the engine (listed in DESIGN.md 2.9): x*1=x/1=x, sign symmetry of RNE (float(-x)=-float(x) for x != MinInt, (-a)*c=-(a*c), round(-a)=-round(a)), scaling an int-derived double by 2^k is exact for |k|<=900, comparisons of monotone chains against constants are replaced by the equivalent threshold comparison on the chain's leaf (threshold found by bisection on the host FPU)",
		},
		Outside: []string{"digits produced by %.2f (ScaledLabel/Percentage text)", "monotonicity of labels and error bounds of time/GCU conversions", "Percentage with a symbolic divisor", "GCU family beyond unknown-unit behaviour", "time family beyond |v| < 2^timebits"},
	},
	"C08": {
		ID: "C08",
		Harnesses: []HarnessSpec{
			{Pkg: "internal/graph", Fn: "VerifC08SortTags", Solver: "z3", Quick: map[string]int{"c08.k": 2}, Thorough: map[string]int{"c08.k": 3}, QuickTimeoutS: 120, ThoroughTimeoutS: 900,
				What: "SortTags (tags.Less) on k tags with symbolic flat/cum and distinct names: output order identical for every input permutation (strict total order)"},
			{Pkg: "internal/graph", Fn: "VerifC08EdgeSort", Solver: "z3", Quick: map[string]int{"c08.k": 2}, Thorough: map[string]int{"c08.k": 3}, QuickTimeoutS: 120, ThoroughTimeoutS: 900,
				What: "EdgeMap.Sort (edgeList.Less) on k edges with symbolic weights and distinct endpoints: output independent of map insertion/iteration order"},
			{Pkg: "internal/graph", Fn: "VerifC08NodeSort", Solver: "z3", Quick: map[string]int{"c08.k": 2}, Thorough: map[string]int{"c08.k": 3}, QuickTimeoutS: 120, ThoroughTimeoutS: 900,
				What: "Nodes.Sort for the six non-entropy orders on k nodes with symbolic flat/cum and distinct Info: output identical for every input permutation"},
		},
		Assumptions: []string{"sort.Sort is interpreted from the standard library source (pdqsort/insertion sort), so the verdict covers the real algorithm on k elements"},
		Outside: []string{"more than k elements", "EntropyOrder (math.Log2 is uninterpreted)", "serialization order of the string table (covered under C01)", "goroutine completion order (C16)"},
	},
}
