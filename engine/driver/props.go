package driver

// Properties is the registry of checks: for every claimed property the
// harnesses that decide it and the bounds of each tier.
var Properties = map[string]*Property{
	"C13": {
		ID: "C13",
		Harnesses: []HarnessSpec{
			{Pkg: "internal/binutils", Fn: "VerifC13ObjAddr",
				Quick: map[string]int{"c13.maxseg": 2}, Thorough: map[string]int{"c13.maxseg": 3},
				QuickTimeoutS: 240, ThoroughTimeoutS: 1500,
				What: "(*file).ObjAddr = computeBase/findProgramHeader/ProgramHeadersForMapping/HeaderForFileOffset/GetBase: result is runtime address minus load bias, or an error only if the owning segment is not unique by file offset; all segment fields, bias, split point and address symbolic"},
		},
		Assumptions: []string{
			"linker well-formedness of PT_LOAD headers: p_offset ≡ p_vaddr (mod 4096), segments ascending and disjoint in memory and in the file, 0 < memsz, filesz ≤ memsz, everything < 2^47",
			"loader model: mapping of the executable segment = [bias+pagedown(vaddr), bias+pageup(vaddr+filesz)) at file offset pagedown(off), optionally split once at a page boundary; bias page aligned (ET_DYN) or 0 (ET_EXEC, vaddr ≥ 4096)",
			"sampled address lies in the file-backed bytes of the executable segment",
		},
		Stubs:   []string{"elfOpen hook returns a harness-built *elf.File (the repo's own test hook); (*elf.File).Close is a no-op"},
		Outside: []string{"kernel images and the kernel heuristics' empirical correctness", "more than the stated number of PT_LOAD segments", "Mach-O and PE files", "the external addr2line/llvm-symbolizer/nm tools"},
	},
	"C15": {
		ID: "C15",
		Harnesses: []HarnessSpec{
			{Pkg: "internal/measurement", Fn: "VerifC15ScaleBytes", Solver: "z3", Quick: map[string]int{"c15.nfrom": 4, "c15.nto": 4}, Thorough: map[string]int{"c15.nfrom": 14, "c15.nto": 14}, QuickTimeoutS: 240, ThoroughTimeoutS: 900,
				What: "measurement.Scale on the bytes family for every int64 (incl. MinInt64), nfrom source spellings x (nto explicit targets | auto | minimum): exact ratio, identity, negation, unit in family, auto unit keeps 1 <= |r| < 1024, magnitude preserved"},
			{Pkg: "internal/measurement", Fn: "VerifC15ScaleTime", Solver: "z3", Quick: map[string]int{"c15.timebits": 40}, Thorough: map[string]int{"c15.timebits": 62}, QuickTimeoutS: 120, ThoroughTimeoutS: 600,
				What: "measurement.Scale on the time family: explicit targets equal the reference formula value*F(from)/F(to) (differential), auto unit stays in the family and keeps the magnitude >= 1"},
			{Pkg: "internal/measurement", Fn: "VerifC15Unknown", Solver: "z3", QuickTimeoutS: 120, ThoroughTimeoutS: 300,
				What: "unknown source units never convert and never change the value for every int64; a cross-family request falls back to the family default"},
		},
		Assumptions: []string{
			"float64 arithmetic is IEEE-754 binary64 with round-to-nearest-even (host FPU = solver FP theory)",
			"exact term rewrites used by the engine (listed in DESIGN.md 2.9): x*1=x/1=x, sign symmetry of RNE (float(-x)=-float(x) for x != MinInt, (-a)*c=-(a*c), round(-a)=-round(a)), scaling an int-derived double by 2^k is exact for |k|<=900, comparisons of monotone chains against constants are replaced by the equivalent threshold comparison on the chain's leaf (threshold found by bisection on the host FPU)",
		},
		Outside: []string{"digits produced by %.2f (ScaledLabel/Percentage text)", "monotonicity of labels and error bounds of time/GCU conversions", "Percentage with a symbolic divisor", "GCU family beyond unknown-unit behaviour", "time family beyond |v| < 2^timebits"},
	},
	"C08": {
		ID: "C08",
		Harnesses: []HarnessSpec{
			{Pkg: "internal/graph", Fn: "VerifC08SortTags", Solver: "z3", Quick: map[string]int{"c08.k": 2}, Thorough: map[string]int{"c08.k": 3}, QuickTimeoutS: 120, ThoroughTimeoutS: 900,
				What: "SortTags (tags.Less) on k tags with symbolic flat/cum and distinct names: output order identical for every input permutation (strict total order)"},
			{Pkg: "internal/graph", Fn: "VerifC08EdgeSort", Solver: "z3", Quick: map[string]int{"c08.k": 2}, Thorough: map[string]int{"c08.k": 3}, QuickTimeoutS: 120, ThoroughTimeoutS: 900,
				What: "EdgeMap.Sort (edgeList.Less) on k edges with symbolic weights and distinct endpoints: output independent of map insertion/iteration order"},
			{Pkg: "internal/graph", Fn: "VerifC08NodeSort", Solver: "z3", Quick: map[string]int{"c08.k": 2}, Thorough: map[string]int{"c08.k": 3}, QuickTimeoutS: 120, ThoroughTimeoutS: 900,
				What: "Nodes.Sort for the six non-entropy orders on k nodes with symbolic flat/cum and distinct Info: output identical for every input permutation"},
		},
		Assumptions: []string{"sort.Sort is interpreted from the standard library source (pdqsort/insertion sort), so the verdict covers the real algorithm on k elements"},
		Outside: []string{"more than k elements", "EntropyOrder (math.Log2 is uninterpreted)", "serialization order of the string table (covered under C01)", "goroutine completion order (C16)"},
	},
	"C01": {
		ID: "C01",
		Harnesses: []HarnessSpec{
			{Pkg: "profile", Fn: "VerifC01Varint", Solver: "z3", QuickTimeoutS: 60, ThoroughTimeoutS: 120,
				What: "decodeVarint(encodeVarint(x)) == x and consumes exactly the encoding, every 64-bit x (all ten lengths)"},
			{Pkg: "profile", Fn: "VerifC01Packed", Solver: "z3", QuickTimeoutS: 60, ThoroughTimeoutS: 120,
				What: "Sample.encode/decodeMessage of 0..4 repeated values (packed from 3) in three varint size classes"},
			{Pkg: "profile", Fn: "VerifC01RoundTrip", Solver: "z3", MaxDecisions: 4000, Quick: map[string]int{"c01.maxtypes": 1}, Thorough: map[string]int{"c01.maxtypes": 2}, QuickTimeoutS: 300, ThoroughTimeoutS: 1500,
				What: "WriteUncompressed -> ParseUncompressed of a valid profile (1 mapping, 2 functions, 2 locations with 2+1 inline lines, 2 samples, string and numeric labels with three unit shapes, comments incl. empty, all header fields) with all ids, addresses, lines, columns, values, header integers and flags symbolic: every persisted field equal after the documented normalisation; parse(write(q)) re-serializes byte-identically"},
		},
		Assumptions: []string{"CheckValid holds for the input (non-zero unique ids)", "all symbolic integers of one run lie in one varint size class (1 byte, 2 bytes, 10 bytes); mixed classes and 3..9-byte encodings are covered by the varint lemma only"},
		Stubs:   []string{"none (gzip layer not exercised: Write/Parse differ from WriteUncompressed/ParseUncompressed only by compress/gzip)"},
		Outside: []string{"gzip framing", "profiles larger than the shape", "byte strings accepted by the parser that no serializer produces (covered by C02 for small buffers)", "driver.makeProfileCopier (C10)"},
	},
	"C02": {
		ID: "C02",
		Harnesses: []HarnessSpec{
			{Pkg: "profile", Fn: "VerifC02ParseBytes", Solver: "z3", MaxDecisions: 4000, Quick: map[string]int{"c02.n": 5}, Thorough: map[string]int{"c02.n": 7}, QuickTimeoutS: 300, ThoroughTimeoutS: 1700,
				What: "ParseUncompressed + CheckValid on a buffer of n arbitrary bytes: no panic / out-of-range (every index, slice and nil-dereference obligation on every path), error or validity contract, and on acceptance write, re-parse, Compact succeed"},
			{Pkg: "profile", Fn: "VerifC02ParseStructured", Solver: "z3", MaxDecisions: 4000, Quick: map[string]int{"c02.payload": 4}, Thorough: map[string]int{"c02.payload": 6}, QuickTimeoutS: 300, ThoroughTimeoutS: 1700,
				What: "a valid prefix (string table, sample type) followed by one top-level field with symbolic field number, wire type, length and payload bytes (nested Sample/Location/Function/Mapping/Label/Line content): same oracle"},
		},
		Stubs:   []string{"gzip = not exercised (ParseUncompressed entry)"},
		Outside: []string{"legacy text and binary formats on symbolic input (regexp/bufio scanners; C14 covers binary CPU kernels)", "gzip wrappers", "buffers longer than the bound", "the text of String()/reports"},
	},
	"C03": {
		ID: "C03",
		Harnesses: []HarnessSpec{
			{Pkg: "profile", Fn: "VerifC03Merge", Solver: "z3", MaxDecisions: 4000, Quick: map[string]int{"c03.variants": 2}, Thorough: map[string]int{"c03.variants": 3}, QuickTimeoutS: 300, ThoroughTimeoutS: 1500,
				What: "Merge of two profiles (each 1 mapping, 2 functions, 2 locations with 2+1 inline lines, 2 samples; colliding ids allowed) with every id, address, mapping range, line, column, start line, folded flag and value symbolic: for each input stack the result holds exactly one stack equal by content whose value is the sum over all inputs, zero sums vanish, nothing is added, totals conserved, result valid, inputs not written (frame monitor) nor aliased, Compact idempotent"},
			{Pkg: "profile", Fn: "VerifC03Headers", Solver: "z3", Quick: map[string]int{"c03.hdrk": 2}, Thorough: map[string]int{"c03.hdrk": 3}, QuickTimeoutS: 120, ThoroughTimeoutS: 300,
				What: "combineHeaders on k profiles with symbolic time/duration/period: max period, earliest non-zero time, summed duration, ordered de-duplicated comments, no aliasing of value-type objects"},
			{Pkg: "profile", Fn: "VerifC03NilPeriodType", Solver: "z3", QuickTimeoutS: 60, ThoroughTimeoutS: 60,
				What: "profiles without a period type merge without a crash"},
		},
		Assumptions: []string{"inputs satisfy CheckValid", "|value| < 2^40 so that sums are mathematical sums", "time, period, duration non-negative", "the reference identity of a mapping is (build id, else file; offset; size rounded up to a page) as the merge documents"},
		Outside: []string{"more than two profiles in the stack oracle", "labels in the stack oracle (label handling is covered by C01's encoder and sampleKey's code path with concrete labels)", "order independence beyond the header rules"},
	},
	"C11": {
		ID: "C11",
		Harnesses: []HarnessSpec{
			{Pkg: "profile", Fn: "VerifC11Prune", Solver: "z3", Quick: map[string]int{"c11.names": 2, "c11.shapes": 7}, Thorough: map[string]int{"c11.names": 3, "c11.shapes": 7}, QuickTimeoutS: 200, ThoroughTimeoutS: 900,
				What: "(*Profile).Prune with drop/keep as arbitrary predicates on simplified names (symbolic regexps) over 7 stack shapes (plain, inlined at root/leaf, 3 inlined frames, shared locations, recursion) and all name assignments: frames left = frame-level rule of the statement; counts, values, labels unchanged; never empty"},
			{Pkg: "profile", Fn: "VerifC11PruneFrom", Solver: "z3", Quick: map[string]int{"c11.names": 2, "c11.shapes": 7}, Thorough: map[string]int{"c11.names": 3, "c11.shapes": 7}, QuickTimeoutS: 200, ThoroughTimeoutS: 900,
				What: "(*Profile).PruneFrom: keeps the lowest matching frame and everything rootwards"},
			{Pkg: "profile", Fn: "VerifC11NoExpr", Solver: "z3", QuickTimeoutS: 100, ThoroughTimeoutS: 300,
				What: "RemoveUninteresting without expressions writes nothing (frame monitor) and changes no frame"},
		},
		Assumptions: []string{"a regular expression is an arbitrary function from strings to booleans (one solver variable per (expression, name)); models are replayed with ^(alt|alt)$ expressions", "function names from a pool of 2 (quick) / 3 (thorough) letters; simplifyFunc runs natively on them"},
		Outside: []string{"how concrete drop/keep strings compile (RE2)", "legacy built-in frame tables (addLegacyFrameInfo)", "stacks deeper than 4 frames"},
	},
	"C06": {
		ID: "C06",
		Harnesses: []HarnessSpec{
			{Pkg: "profile", Fn: "VerifC06FilterByName", Solver: "z3", MaxDecisions: 2000, Quick: map[string]int{"c11.names": 2}, Thorough: map[string]int{"c11.names": 3}, QuickTimeoutS: 300, ThoroughTimeoutS: 1200,
				What: "FilterSamplesByName with focus/ignore/hide/show (7 combinations) as arbitrary predicates over function names, the file name and the mapping file, 5 stack shapes (inlined, shared, empty stack): kept samples, their labels and their remaining frames equal the frame-level reference"},
			{Pkg: "profile", Fn: "VerifC06Partition", Solver: "z3", Quick: map[string]int{"c11.names": 2}, Thorough: map[string]int{"c11.names": 3}, QuickTimeoutS: 120, ThoroughTimeoutS: 600,
				What: "focus=R and ignore=R partition the samples and their totals add up, for every predicate R"},
			{Pkg: "profile", Fn: "VerifC06ShowFrom", Solver: "z3", Quick: map[string]int{"c11.names": 2}, Thorough: map[string]int{"c11.names": 3}, QuickTimeoutS: 120, ThoroughTimeoutS: 600,
				What: "ShowFrom keeps the frames from the highest match leafwards and drops samples without a match"},
			{Pkg: "profile", Fn: "VerifC06Tags", Solver: "z3", QuickTimeoutS: 60, ThoroughTimeoutS: 120,
				What: "FilterTagsByName removes exactly the labels described by tagshow/taghide"},
		},
		Assumptions: []string{"a regular expression is an arbitrary predicate on strings (one solver variable per (expression, string))", "with hide/show a frameless sample may or may not be dropped (the statement allows both)"},
		Outside: []string{"compilation of filter option strings (driver_focus.go; numeric ranges are under C09/C15)", "FilterSamplesByTag with unit conversion", "relative_percentages", "RE2 matching itself"},
	},
	"C09": {
		ID: "C09",
		Harnesses: []HarnessSpec{
			{Pkg: "internal/driver", Fn: "VerifC09TagRange", Solver: "cvc5-int-oneshot", MaxDecisions: 2000,
				Quick: map[string]int{"c09.lens": 2, "c09.signs": 1, "c09.units": 2}, Thorough: map[string]int{"c09.lens": 4, "c09.signs": 3, "c09.units": 3}, QuickTimeoutS: 400, ThoroughTimeoutS: 1700,
				What: "parseTagFilterRange on range expressions of the four forms (v, v:, :v, a:b) whose numbers are 1/20 (quick) or 1/3/19/20 (thorough) symbolic decimal digits, optional sign and unit: never panics (strconv.ParseInt interpreted over symbolic digits, overflow paths included), returned predicate callable"},
			{Pkg: "internal/driver", Fn: "VerifC09LocateBinaries", Solver: "z3", QuickTimeoutS: 60, ThoroughTimeoutS: 120,
				What: "locateBinaries for build ids of length 0,1,2,3,10 x file names incl. volume-like and empty, with an ObjTool that fails every open: no panic"},
		},
		Assumptions: []string{"regexp submatch on symbolic digits: the match structure is computed natively on two digit fillings that must agree (the range regexp only uses character classes)"},
		Stubs:   []string{"plugin.ObjTool and plugin.UI are harness mocks", "filepath.Glob returns no matches", "os.Getenv returns the empty string"},
		Outside: []string{"arbitrary regexp syntax errors", "interactive loop, web handlers and URL parsing (net/url, net/http)", "profile-content-triggered panics in report generation beyond what C04/C05/C17 harnesses reach"},
	},
	"C12": {
		ID: "C12",
		Harnesses: []HarnessSpec{
			{Pkg: "internal/symbolizer", Fn: "VerifC12Local", Solver: "z3", MaxDecisions: 2000, QuickTimeoutS: 300, ThoroughTimeoutS: 900,
				What: "doLocalSymbolize/symbolizeOneMapping on a 2-mapping profile (partly symbolized, sparse symbolic function id, optional missing file / build id) against an ObjTool whose every Open/SourceLine answer is arbitrary (error, mismatching build id, no frames, 1-2 frames with arbitrary names and symbolic line numbers), with and without force: samples, values, labels, stacks, addresses, mapping ranges untouched; already symbolized mappings untouched without force; result valid with unique ids"},
			{Pkg: "internal/symbolizer", Fn: "VerifC12Demangle", Solver: "z3", Quick: map[string]int{"c12.namelen": 3}, Thorough: map[string]int{"c12.namelen": 5}, QuickTimeoutS: 120, ThoroughTimeoutS: 900,
				What: "demangleSingleFunction on every name of length <= n over the alphabet a ( ) < > : in three demangler option sets: the name never becomes empty, the system name is kept (github.com/ianlancetaylor/demangle interpreted from source)"},
			{Pkg: "internal/symbolz", Fn: "VerifC12Adjust", Solver: "z3", QuickTimeoutS: 60, ThoroughTimeoutS: 60,
				What: "symbolz.adjust(addr, offset) for all 2^128 operand pairs: returns the mathematical sum or flags overflow exactly when the sum leaves the uint64 range"},
		},
		Stubs:   []string{"plugin.ObjTool/ObjFile/UI are harness mocks whose answers are choice/solver variables ('all behaviours of the plug-ins, including failure at any call')", "net/url and the demangle library are interpreted from source"},
		Outside: []string{"the symbolz HTTP exchange and its line grammar (symbolizeMapping with a post callback)", "binutils-backed ObjTool", "mode string parsing of (*Symbolizer).Symbolize", "names longer than the bound"},
	},
	"C17": {
		ID: "C17",
		Harnesses: []HarnessSpec{
			{Pkg: "internal/report", Fn: "VerifC17Stacks", Solver: "z3", MaxDecisions: 2000, QuickTimeoutS: 200, ThoroughTimeoutS: 600,
				What: "(*Report).Stacks (makeInitialStacks, fillPlaces) on 6 stack shapes (shared root, recursion, inlined frames, empty stack, frame without function, shared inlined location) x equal names in different files, sample values symbolic: one rooted stack per sample, frames and inlined flags faithful, values sum to the signed total, Self = sum of stacks ending at the source, Places list every containing stack exactly once at its outermost occurrence, all slices non-nil, indices in range"},
		},
		Outside: []string{"JSON marshalling in driver.stackView", "Display name shortening heuristics", "line/column numbers inside source identity (kept zero)"},
	},
	"C04": {
		ID: "C04",
		Harnesses: []HarnessSpec{
			{Pkg: "internal/report", Fn: "VerifC04TextItems", Solver: "cvc5-int-oneshot", MaxDecisions: 3000, Quick: map[string]int{"c04.shapes": 3}, Thorough: map[string]int{"c04.shapes": 5}, QuickTimeoutS: 400, ThoroughTimeoutS: 1500,
				What: "report.New/computeTotal, (*Report).newGraph = graph.New/CreateNodes/addSample, and report.TextItems on 5 stack shapes x sample_index x mean with every sample value symbolic (two sample types): node flat/cum, mean quotients, every edge weight and the report total equal the definition over samples; text items show the same numbers"},
		},
		Assumptions: []string{"|value| < 2^40 (sums are mathematical sums); mean divisors non-negative", "profile aggregated to function granularity (all addresses zero) so that an entry is a function"},
		Stubs:   []string{"measurement.ScaledLabel/Label/Percentage of a symbolic value return opaque text (formatting is not the subject)"},
		Outside: []string{"digits in the text of top/tree/dot/callgrind/traces", "granularity/noinlines/tagroot/tagleaf handling in driver.aggregate (needs the driver-level harness)", "call_tree"},
	},
	"C05": {
		ID: "C05",
		Harnesses: []HarnessSpec{
			{Pkg: "internal/report", Fn: "VerifC05Trim", Solver: "cvc5-int-oneshot", MaxDecisions: 3000, Quick: map[string]int{"c05.shapes": 2, "c05.fractions": 2, "c05.formats": 1}, Thorough: map[string]int{"c05.shapes": 5, "c05.fractions": 3, "c05.formats": 1}, QuickTimeoutS: 500, ThoroughTimeoutS: 1700,
				What: "(*Report).newTrimmedGraph (DiscardLowFrequencyNodes, SelectTopNodes, TrimLowFrequencyEdges, rebuild with kept set) for nodecount in {unlimited,1,2} x nodefraction/edgefraction in {0, 1/2, 1/4} x flat/cum sort, text mode, every sample value symbolic: shown entries carry their untrimmed flat/cum, nothing below the cutoff is shown, removed entries are exactly those below the cutoff or outside the top N under the active order, header figure = sum of shown flat, edges connect shown entries only, edge weights = once-per-sample sums over the stacks projected onto the shown entries, bypassing edges are residual and direct edges keep their untrimmed weight"},
		},
		Assumptions: []string{"|value| < 2^40", "fractions are powers of two so that float64(total)*fraction is exact; int64(float64(x)*2^k) is rewritten to integer division after the solver confirms |x| < 2^53"},
		Outside: []string{"dot/visual mode (entropy order uses math.Log2), RemoveRedundantEdges", "call_tree trimming (TrimTree)", "tag trimming"},
	},
	"C07": {
		ID: "C07",
		Harnesses: []HarnessSpec{
			{Pkg: "profile", Fn: "VerifC07SelfDiff", Solver: "z3", QuickTimeoutS: 200, ThoroughTimeoutS: 300,
				What: "Scale(-1) then Merge (the -base path of fetchProfiles): a profile minus itself is empty for every int64 value"},
			{Pkg: "profile", Fn: "VerifC07Subtract", Solver: "z3", QuickTimeoutS: 120, ThoroughTimeoutS: 300,
				What: "source minus base entry by entry for two stacks with symbolic values (|v| < 2^52)"},
			{Pkg: "profile", Fn: "VerifC07ScaleN", Solver: "z3", Quick: map[string]int{"c07.ratios": 4}, Thorough: map[string]int{"c07.ratios": 7}, QuickTimeoutS: 300, ThoroughTimeoutS: 900,
				What: "ScaleN with per-column ratios (1, 1024, 1/2, 1/4, 2, 0, -1): scaled values equal round(value*ratio) and a sample with a non-zero resulting column is never dropped"},
		},
		Assumptions: []string{"|value| < 2^40 in ScaleN (power-of-two ratios are then exact)"},
		Outside: []string{"non-power-of-two ratios (ms<->ns, -normalize quotients): FP multiply by 10^k does not finish in the solver", "sample-type alignment (CompatibilizeSampleTypes) and unit harmonisation (ScaleProfiles) end to end", "diff-base percentages and proto round trip of the result"},
	},
	"C18": {
		ID: "C18",
		Harnesses: []HarnessSpec{
			{Pkg: "internal/graph", Fn: "VerifC18Dot", Solver: "z3", MaxDecisions: 3000, Quick: map[string]int{"c18.bytes": 1}, Thorough: map[string]int{"c18.bytes": 2}, QuickTimeoutS: 200, ThoroughTimeoutS: 900,
				What: "graph.New + ComposeDot (start, addLegend, addNode, addNodelets, numericNodelets, addEdge, escapeForDot, multilinePrintableName, joinLabels) with DOT metacharacters (quote, backslash, newline, <, >) or an ordinary character at 1-2 positions inside one of: graph title, legend line, function name, file name, label value, numeric label unit; the output is read by an independent DOT lexer/parser written in the harness: it tokenizes, parses as digraph{...}, and every edge endpoint is a declared node"},
			{Pkg: "internal/report", Fn: "VerifC18Callgrind", Solver: "z3", MaxDecisions: 3000, QuickTimeoutS: 200, ThoroughTimeoutS: 600,
				What: "printCallgrind/callgrindName/getDisambiguatedNames with a metacharacter (newline, space, parentheses, =) inside the function, file or binary name and three address patterns: every line is a name line or a cost line, every (n) back-reference was defined earlier with that name"},
		},
		Assumptions: []string{"each symbolic byte is pinned to one class by assumption; the class 'ordinary character' is represented by a solver-chosen lower-case letter when the code hands the string to a native regexp/filepath function (counted as concretization)"},
		Outside: []string{"HTML views (html/template is trusted)", "Graphviz semantics beyond syntax", "callgrind position compression with symbolic addresses (length comparison of formatted numbers)", "more than 2 metacharacters per string"},
	},
	"C14": {
		ID: "C14",
		Harnesses: []HarnessSpec{
			{Pkg: "profile", Fn: "VerifC14BinaryCPU", Solver: "z3", MaxDecisions: 3000, Quick: map[string]int{"c14.periods": 1, "c14.records": 2, "c14.frames": 3}, Thorough: map[string]int{"c14.periods": 3, "c14.records": 3, "c14.frames": 3}, QuickTimeoutS: 400, ThoroughTimeoutS: 1700,
				What: "parseCPU/cpuProfile/parseCPUSamples/cleanupDuplicateLocations on binary CPU profiles printed from a model: word size 4/8 x little/big endian, 1..records records of 1..frames frames with symbolic counts and addresses (every word symbolic): one sample per record in order, values [count, count*period*1000], leaf address kept and callers moved back by one, the documented signal-frame and duplicate-leaf removal (reference restates the rule), result valid"},
		},
		Assumptions: []string{"period enumerated over {10000, 1, 2^19} (count*period with both symbolic is a 64-bit multiplier)", "0 < count < 2^20, addresses > 1 and within the word size", "fewer than 32 samples, so the 'nearly all samples' margin of the signal-frame rule is zero"},
		Outside: []string{"all text formats (heap, heap_v2, growth, contention, threadz, count profiles, Java heapz/contentionz): their recognition needs regexp/bufio scanning of symbolic text", "the trailing memory map section (empty here)", "unsampling by 1/(1-exp(-size/rate))"},
	},
}
