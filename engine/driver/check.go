package driver

import (
	"gosymx/interp"
	"crypto/sha256"
	"encoding/json"
	"flag"
	"fmt"
	"os"
	"path/filepath"
	"sort"
	"strconv"
	"strings"
	"time"
)

// HarnessSpec is one harness of a property with its per-tier bounds.
type HarnessSpec struct {
	Pkg, Fn  string
	Quick    map[string]int
	Thorough map[string]int
	Solver   string
	QuickTimeoutS, ThoroughTimeoutS int
	MaxSteps, MaxDecisions int
	MapOrder string
	What     string // one line: what this harness decides
	ThoroughOnly bool
}

type Property struct {
	ID        string
	Harnesses []HarnessSpec
	Assumptions []string
	Stubs     []string
	Outside   []string
}

type knownFinding struct {
	Property, Label, Text string
}

func verifDir() string {
	if d := os.Getenv("VERIF_DIR"); d != "" {
		return d
	}
	return "/verif"
}

func loadKnownFindings() []knownFinding {
	b, err := os.ReadFile(filepath.Join(verifDir(), "known_findings.txt"))
	if err != nil {
		return nil
	}
	var out []knownFinding
	for _, l := range strings.Split(string(b), "\n") {
		l = strings.TrimSpace(l)
		if l == "" || strings.HasPrefix(l, "#") || strings.HasPrefix(l, "fixed:") {
			continue
		}
		// finding: property=C13 label=<label> <text>
		if !strings.HasPrefix(l, "finding:") {
			continue
		}
		f := strings.Fields(l[len("finding:"):])
		kf := knownFinding{}
		var rest []string
		for _, w := range f {
			switch {
			case strings.HasPrefix(w, "property=") && kf.Property == "":
				kf.Property = w[9:]
			case strings.HasPrefix(w, "label=") && kf.Label == "":
				kf.Label = w[6:]
			default:
				rest = append(rest, w)
			}
		}
		kf.Text = strings.Join(rest, " ")
		out = append(out, kf)
	}
	return out
}

type replayFile struct {
	Property string     `json:"property"`
	Pkg      string     `json:"pkg"`
	Fn       string     `json:"fn"`
	Label    string     `json:"label"`
	Kind     string     `json:"kind"`
	Msg      string     `json:"msg"`
	Case     NativeCase `json:"case"`
	Native   *NativeOut `json:"native_outcome"`
}

// CheckMain implements `gosymx check <ID> [--tier quick|thorough] [--replay file]`.
func CheckMain(args []string) int {
	if len(args) < 1 {
		fmt.Fprintln(os.Stderr, "usage: gosymx check <property> [--tier quick|thorough] [--replay file]")
		return 2
	}
	id := args[0]
	fs := flag.NewFlagSet("check", flag.ExitOnError)
	tier := fs.String("tier", "", "quick|thorough")
	replay := fs.String("replay", "", "replay file")
	repo := fs.String("repo", "/repo", "repository")
	workers := fs.Int("workers", 16, "workers")
	only := fs.String("only", "", "run only the harness with this function name")
	fs.Parse(args[1:])
	if *tier == "" {
		*tier = os.Getenv("VERIF_TIER")
	}
	if *tier == "" {
		*tier = "quick"
	}
	seed := 0
	if s := os.Getenv("VERIF_SEED"); s != "" {
		seed, _ = strconv.Atoi(s)
	}
	opt := &Options{Repo: *repo, HarnessDir: filepath.Join(verifDir(), "harness"), Workers: *workers, NativeSamples: 8, Verbose: os.Getenv("VERIF_VERBOSE") != ""}
	if *tier == "thorough" {
		opt.NativeSamples = 64
	}
	opt.Seed = seed
	if *replay != "" {
		return replayMain(id, *replay, opt)
	}
	prop, ok := Properties[id]
	if !ok {
		fmt.Fprintf(os.Stderr, "unknown property %s\n", id)
		return 2
	}
	t0 := time.Now()
	kfs := loadKnownFindings()
	exit := 0
	ev := newEvidence(id, *tier, seed)
	for _, a := range prop.Assumptions {
		ev.Assumptions = append(ev.Assumptions, a)
	}
	for _, s := range prop.Stubs {
		ev.Assumptions = append(ev.Assumptions, "stub: "+s)
	}
	for _, s := range prop.Outside {
		ev.Assumptions = append(ev.Assumptions, "outside the claim: "+s)
	}
	for _, hs := range prop.Harnesses {
		if *only != "" && hs.Fn != *only {
			continue
		}
		if hs.ThoroughOnly && *tier != "thorough" {
			continue
		}
		h := &Harness{Pkg: hs.Pkg, Fn: hs.Fn, Name: hs.Fn, MaxSteps: hs.MaxSteps, MaxDecisions: hs.MaxDecisions, MapOrder: hs.MapOrder, Desc: hs.What}
		h.Bounds = hs.Quick
		o := *opt
		o.TimeoutS = hs.QuickTimeoutS
		if *tier == "thorough" {
			h.Bounds = hs.Thorough
			if h.Bounds == nil {
				h.Bounds = hs.Quick
			}
			o.TimeoutS = hs.ThoroughTimeoutS
		}
		o.Solver = hs.Solver
		res, err := RunHarness(h, &o)
		if err != nil {
			fmt.Printf("ERROR property=%s harness=%s: %v\n", id, hs.Fn, err)
			ev.addError(hs.Fn, err.Error())
			if exit == 0 {
				exit = 2
			}
			continue
		}
		if opt.Verbose {
			PrintResult(os.Stderr, res)
		}
		ev.addHarness(hs, h.Bounds, res)
		if res.Err != "" {
			fmt.Printf("ENGINE-ERROR property=%s harness=%s: %s\n", id, hs.Fn, firstLine(res.Err))
			if exit == 0 {
				exit = 2
			}
			continue
		}
		for _, m := range res.SampleMismatches {
			fmt.Printf("ENGINE-MISMATCH property=%s harness=%s: %s\n", id, hs.Fn, m)
			if exit == 0 {
				exit = 2
			}
		}
		for _, v := range res.Violations {
			if !v.Reproduced {
				fmt.Printf("ENGINE-MISMATCH property=%s harness=%s: solver model for %q did not reproduce natively (native outcome %s %v %s)\n",
					id, hs.Fn, v.V.Label, v.Native.Outcome, v.Native.Fails, v.Native.Panic)
				if exit == 0 {
					exit = 2
				}
				continue
			}
			label := v.V.Label
			if v.V.Kind == "panic" {
				label = "panic:" + interp.PanicFingerprint(v.V.Msg)
			}
			known := false
			for _, kf := range kfs {
				if kf.Property == id && kf.Label == label {
					fmt.Printf("KNOWN-FINDING: property=%s %s (%s)\n", id, kf.Text, label)
					ev.KnownHit = append(ev.KnownHit, label)
					known = true
				}
			}
			if known {
				continue
			}
			rf := replayFile{Property: id, Pkg: hs.Pkg, Fn: hs.Fn, Label: label, Kind: v.V.Kind, Msg: v.V.Msg, Case: v.Case, Native: v.Native}
			b, _ := json.MarshalIndent(rf, "", " ")
			sum := sha256.Sum256(b)
			dir := filepath.Join(verifDir(), "replay")
			os.MkdirAll(dir, 0o755)
			path := filepath.Join(dir, fmt.Sprintf("%s-%x.json", id, sum[:6]))
			os.WriteFile(path, b, 0o644)
			fmt.Printf("VIOLATION property=%s replay=%s\n", id, path)
			fmt.Printf("  harness=%s label=%s: %s\n", hs.Fn, label, v.V.Msg)
			ev.Violations++
			exit = 1
		}
		st := res.Run.Stats
		if n := st.PathsUnsupported + st.PathsBudget + st.AssertsUnknown; n > 0 || res.Run.TimedOut {
			fmt.Printf("INCONCLUSIVE property=%s harness=%s: unsupported=%d budget=%d unknown-asserts=%d timedout=%v (not counted as explored)\n",
				id, hs.Fn, st.PathsUnsupported, st.PathsBudget, st.AssertsUnknown, res.Run.TimedOut)
			// Paths the engine could not execute (a construct without a model) are
			// deterministic and never occur on the unchanged tree: exit 2 ("cannot
			// decide"). Solver time-outs, exhausted budgets and the wall-clock limit
			// depend on machine load: they reduce the explored part, which the
			// evidence records, and the exit status reflects what was explored.
			if st.PathsUnsupported > 0 && exit == 0 {
				exit = 2
			}
		}
	}
	ev.Wall = time.Since(t0).Seconds()
	if err := ev.write(filepath.Join(verifDir(), "evidence", id+".json")); err != nil {
		fmt.Fprintln(os.Stderr, "cannot write evidence:", err)
		if exit == 0 {
			exit = 2
		}
	}
	if exit == 0 {
		fmt.Printf("OK property=%s tier=%s paths=%d asserts-proved=%d queries=%d wall=%.1fs\n", id, *tier, ev.Coverage.States, ev.Coverage.Discharged, ev.Coverage.SolverQueries, ev.Wall)
	}
	return exit
}

func firstLine(s string) string {
	if i := strings.IndexByte(s, '\n'); i >= 0 {
		return s[:i]
	}
	return s
}

// panicFingerprint reduces a panic message to its stable part (source position of the panic).
func panicFingerprint(msg string) string {
	// "... at /repo/internal/driver/fetch.go:431:76" -> "internal/driver/fetch.go:<func-independent>"
	if i := strings.LastIndex(msg, " at "); i >= 0 {
		pos := msg[i+4:]
		pos = strings.TrimPrefix(pos, "/repo/")
		// drop line/column: they move with unrelated edits; keep file
		if j := strings.IndexByte(pos, ':'); j > 0 {
			pos = pos[:j]
		}
		kind := msg[:i]
		if k := strings.IndexAny(kind, "[0123456789"); k > 0 {
			kind = strings.TrimSpace(kind[:k])
		}
		return pos + ":" + strings.ReplaceAll(kind, " ", "_")
	}
	return strings.ReplaceAll(firstLine(msg), " ", "_")
}

func replayMain(id, path string, opt *Options) int {
	b, err := os.ReadFile(path)
	if err != nil {
		fmt.Fprintln(os.Stderr, err)
		return 2
	}
	var rf replayFile
	if err := json.Unmarshal(b, &rf); err != nil {
		fmt.Fprintln(os.Stderr, err)
		return 2
	}
	ov, _, err := BuildOverlay(opt.Repo, opt.HarnessDir, rf.Pkg)
	if err != nil {
		fmt.Fprintln(os.Stderr, err)
		return 2
	}
	if len(rf.Case.Sched) > 0 {
		// a schedule-dependent counterexample: replayed with its recorded schedule forced
		ov = instrumentedOverlay(opt.Repo, ov)
	}
	outs, err := NativeReplay(opt, rf.Pkg, ov, []NativeCase{rf.Case})
	if err != nil {
		fmt.Fprintln(os.Stderr, err)
		return 2
	}
	o := outs[0]
	fmt.Printf("replay %s: harness=%s native outcome=%s fails=%v panic=%q obs=%v\n", path, rf.Fn, o.Outcome, o.Fails, o.Panic, o.Obs)
	repro := false
	if rf.Kind == "panic" {
		repro = o.Outcome == "panic"
	} else {
		for _, f := range o.Fails {
			if labelOf(f) == rf.Label {
				repro = true
			}
		}
	}
	if repro {
		fmt.Printf("VIOLATION property=%s replay=%s\n", id, path)
		return 1
	}
	fmt.Println("not reproduced on the current tree")
	return 0
}

// ---------- evidence ----------

type evCoverage struct {
	States      int      `json:"states"`
	Transitions int      `json:"transitions"`
	TracesValidated int  `json:"traces_validated_against_impl"`
	Samples     []interface{} `json:"samples"`
	Obligations int      `json:"obligations"`
	Discharged  int      `json:"discharged"`
	Exhaustive  bool     `json:"exhaustive"`
	Explanation string   `json:"explanation"`
	FunctionsEncoded []string `json:"functions_encoded"`
	Bounds      map[string]map[string]int `json:"bounds"`
	Harnesses   []map[string]interface{} `json:"harnesses"`
	SolverQueries int `json:"solver_queries"`
	SolverSat, SolverUnsat, SolverUnknown int
	SolverTimeS float64 `json:"solver_time_s"`
	UnwindingFailures int `json:"unwinding_failures"`
	Unsupported int `json:"unsupported_paths"`
	Concretizations int `json:"concretizations"`
	InfeasiblePaths int `json:"infeasible_paths"`
	EnumeratedForks int `json:"enumerated_shape_forks"`
	Notes map[string]int `json:"notes"`
	Reach map[string]int `json:"reachability_witnesses"`
	Errors []string `json:"errors,omitempty"`
}

type evidence struct {
	PropertyID string     `json:"property_id"`
	Tier       string     `json:"tier"`
	Seed       int        `json:"seed"`
	Level      string     `json:"level"`
	Coverage   evCoverage `json:"coverage"`
	Assumptions []string  `json:"assumptions"`
	Wall       float64    `json:"wall_s"`
	Violations int        `json:"violations"`
	KnownHit   []string   `json:"known_findings_hit,omitempty"`
}

func newEvidence(id, tier string, seed int) *evidence {
	ev := &evidence{PropertyID: id, Tier: tier, Seed: seed, Level: "model_checking"}
	ev.Coverage.Bounds = map[string]map[string]int{}
	ev.Coverage.Notes = map[string]int{}
	ev.Coverage.Reach = map[string]int{}
	ev.Coverage.Exhaustive = true
	ev.Coverage.Explanation = "bounded symbolic execution of the real Go code (go/ssa of /repo's working tree) with an SMT solver deciding every branch feasibility, implicit safety obligation and assertion; states = completed symbolic paths, transitions = decisions taken, obligations/discharged = assertions and safety conditions proved unsat-negated, traces_validated = solver models of explored paths replayed natively with identical observations"
	return ev
}

func (ev *evidence) addError(fn, msg string) {
	ev.Coverage.Errors = append(ev.Coverage.Errors, fn+": "+msg)
	ev.Coverage.Exhaustive = false
}

func (ev *evidence) addHarness(hs HarnessSpec, bounds map[string]int, r *Result) {
	c := &ev.Coverage
	st := r.Run.Stats
	c.States += st.PathsOK + st.PathsPanic
	c.Transitions += st.Decisions + st.Forks
	c.TracesValidated += r.SamplesAgreed
	for _, v := range r.Violations {
		if v.Reproduced {
			c.TracesValidated++
		}
	}
	c.Obligations += st.Asserts + st.Obligations
	c.Discharged += st.AssertsProved + st.Obligations
	c.SolverQueries += r.Run.SolverQueries
	c.SolverSat += r.Run.SolverSat
	c.SolverUnsat += r.Run.SolverUnsat
	c.SolverUnknown += r.Run.SolverUnknown
	c.SolverTimeS += r.Run.SolverTime.Seconds()
	c.UnwindingFailures += st.PathsBudget
	c.Unsupported += st.PathsUnsupported
	c.Concretizations += st.Concretizations
	c.InfeasiblePaths += st.PathsInfeasible
	c.EnumeratedForks += st.Forks
	if st.PathsBudget+st.PathsUnsupported+st.AssertsUnknown > 0 || r.Run.TimedOut || r.Err != "" {
		c.Exhaustive = false
	}
	for k, v := range st.Notes {
		c.Notes[hs.Fn+": "+k] += v
	}
	for k, v := range st.Reach {
		c.Reach[k] += v
	}
	c.Bounds[hs.Fn] = r.Run.Bounds
	seen := map[string]bool{}
	for _, f := range c.FunctionsEncoded {
		seen[f] = true
	}
	for _, f := range r.Run.Funcs {
		if !seen[f] && strings.Contains(f, "github.com/google/pprof") && !strings.Contains(f, ".v") {
			c.FunctionsEncoded = append(c.FunctionsEncoded, f)
		}
	}
	sort.Strings(c.FunctionsEncoded)
	hm := map[string]interface{}{
		"harness": hs.Pkg + "." + hs.Fn, "decides": hs.What, "paths": st.Paths, "paths_ok": st.PathsOK, "infeasible": st.PathsInfeasible,
		"decisions": st.Decisions, "forks": st.Forks, "asserts": st.Asserts, "asserts_proved": st.AssertsProved, "asserts_unknown": st.AssertsUnknown,
		"safety_obligations": st.Obligations, "queries": r.Run.SolverQueries, "solver_time_s": r.Run.SolverTime.Seconds(),
		"explore_wall_s": r.Run.Wall.Seconds(), "native_samples_agreed": fmt.Sprintf("%d/%d", r.SamplesAgreed, r.SamplesChecked),
		"timed_out": r.Run.TimedOut, "instructions": st.Steps,
	}
	if len(st.Unsupported) > 0 {
		hm["unsupported"] = st.Unsupported
	}
	if len(st.Budget) > 0 {
		hm["budget"] = st.Budget
	}
	if len(st.ConcWhy) > 0 {
		hm["concretized"] = st.ConcWhy
	}
	c.Harnesses = append(c.Harnesses, hm)
	// a few samples: path models with their observations
	for i, s := range r.Run.Samples {
		if i >= 3 {
			break
		}
		vals := map[string]string{}
		for _, in := range s.Inputs {
			if in.Kind == "choice" {
				vals[in.Name] = fmt.Sprintf("choice %d of %d", in.Choice, in.N)
			} else {
				vals[in.Name] = fmt.Sprintf("%#x", s.Model[in.Name])
			}
		}
		c.Samples = append(c.Samples, map[string]interface{}{"harness": hs.Fn, "path_model": vals, "observed": s.Observed, "outcome": "all assertions proved on this path; replayed natively"})
	}
	for _, v := range r.Violations {
		c.Samples = append(c.Samples, map[string]interface{}{"harness": hs.Fn, "violation": v.V.Label, "msg": v.V.Msg, "counterexample": v.Case.Vals, "choices": v.Case.Choices, "reproduced_natively": v.Reproduced})
	}
}

func (ev *evidence) write(path string) error {
	if len(ev.Coverage.Samples) == 0 {
		ev.Coverage.Samples = []interface{}{"no path completed"}
	}
	if ev.Coverage.States == 0 {
		// schema requires >= 1 for model_checking-specific keys; fall back honestly
		ev.Coverage.Exhaustive = false
	}
	os.MkdirAll(filepath.Dir(path), 0o755)
	b, err := json.MarshalIndent(ev, "", " ")
	if err != nil {
		return err
	}
	return os.WriteFile(path, b, 0o644)
}
