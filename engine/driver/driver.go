// Package driver loads /repo with harness overlays, runs the symbolic
// exploration, replays models natively and writes evidence.
package driver

import (
	"bytes"
	"encoding/json"
	"fmt"
	"io"
	"os"
	"os/exec"
	"path/filepath"
	"regexp"
	"sort"
	"strconv"
	"strings"
	"time"

	"gosymx/interp"
	"gosymx/sym"
)

type Harness struct {
	Pkg  string // package directory relative to the repo root
	Fn   string // harness function (also its registered native name)
	Name string
	// per-harness limits (0 = default)
	MaxSteps, MaxDecisions int
	MapOrder string
	Desc     string
	NoPanicViolations bool
	Bounds   map[string]int
}

type Options struct {
	Repo, HarnessDir string
	Workers          int
	TraceCalls, TraceInstr bool
	Solver           string
	SolverTimeoutMs  int
	MaxPaths         int
	NativeSamples    int
	TimeoutS         int
	Verbose          bool
	MaxViolations    int
	Seed             int
}

type NativeOut struct {
	Outcome string   `json:"outcome"`
	Fails   []string `json:"fails"`
	Obs     []string `json:"obs"`
	Panic   string   `json:"panic"`
}

type NativeCase struct {
	Harness string            `json:"harness"`
	Vals    map[string]string `json:"vals"`
	Choices map[string]int    `json:"choices"`
	Bounds  map[string]int    `json:"bounds"`
	Sched   []interp.SchedEvent `json:"sched,omitempty"`
}

type ViolationReport struct {
	V          *interp.Violation
	Case       NativeCase
	Native     *NativeOut
	Reproduced bool
	Forced     bool // reproduced natively only with the recorded schedule forced
	ReplayPath string
}

type Result struct {
	Harness    *Harness
	Run        *interp.RunResult
	LoadTime   time.Duration
	SamplesChecked, SamplesAgreed int
	SampleMismatches []string
	Violations []*ViolationReport
	NativeTime time.Duration
	Err        string
}

var pkgClauseRE = regexp.MustCompile(`(?m)^package\s+(\w+)`)

// BuildOverlay maps harness files (and the run-time template) into the repo.
func BuildOverlay(repo, hdir, pkgRel string) (map[string][]byte, string, error) {
	src := filepath.Join(hdir, pkgRel)
	ents, err := os.ReadDir(src)
	if err != nil {
		return nil, "", err
	}
	ov := map[string][]byte{}
	pkgName := ""
	for _, e := range ents {
		if e.IsDir() || !strings.HasSuffix(e.Name(), ".go") {
			continue
		}
		b, err := os.ReadFile(filepath.Join(src, e.Name()))
		if err != nil {
			return nil, "", err
		}
		if m := pkgClauseRE.FindSubmatch(b); m != nil && pkgName == "" && !strings.HasSuffix(string(m[1]), "_test") {
			pkgName = string(m[1])
		}
		ov[filepath.Join(repo, pkgRel, e.Name())] = b
	}
	if pkgName == "" {
		return nil, "", fmt.Errorf("no harness files in %s", src)
	}
	for _, t := range []string{"zz_verif_rt.go", "zz_verif_replay_test.go"} {
		b, err := os.ReadFile(filepath.Join(hdir, "_rt", t+".tmpl"))
		if err != nil {
			return nil, "", err
		}
		b = bytes.Replace(b, []byte("package PKGNAME"), []byte("package "+pkgName), 1)
		ov[filepath.Join(repo, pkgRel, t)] = b
	}
	return ov, pkgName, nil
}

func modulePath(repo string) string {
	b, _ := os.ReadFile(filepath.Join(repo, "go.mod"))
	for _, l := range strings.Split(string(b), "\n") {
		if strings.HasPrefix(l, "module ") {
			return strings.TrimSpace(l[7:])
		}
	}
	return ""
}

type loaded struct {
	prog *interp.Program
	ov   map[string][]byte
	pkgPath string
	dur  time.Duration
}

var loadCache = map[string]*loaded{}

func loadPkg(opt *Options, pkgRel string) (*loaded, error) {
	if l, ok := loadCache[pkgRel]; ok {
		return l, nil
	}
	t0 := time.Now()
	ov, _, err := BuildOverlay(opt.Repo, opt.HarnessDir, pkgRel)
	if err != nil {
		return nil, err
	}
	// the test file is only for native replay
	lov := map[string][]byte{}
	for k, v := range ov {
		if !strings.HasSuffix(k, "_test.go") {
			lov[k] = v
		}
	}
	pkgPath := modulePath(opt.Repo) + "/" + pkgRel
	if pkgRel == "." || pkgRel == "" {
		pkgPath = modulePath(opt.Repo)
	}
	prog, err := interp.Load(opt.Repo, []string{pkgPath}, lov, "verif")
	if err != nil {
		return nil, err
	}
	l := &loaded{prog: prog, ov: ov, pkgPath: pkgPath, dur: time.Since(t0)}
	loadCache[pkgRel] = l
	return l, nil
}

func RunHarness(h *Harness, opt *Options) (*Result, error) {
	l, err := loadPkg(opt, h.Pkg)
	if err != nil {
		return nil, err
	}
	fn := l.prog.FindFunc(l.pkgPath, h.Fn)
	if fn == nil {
		return nil, fmt.Errorf("HARNESS-STALE: function %s not found in %s", h.Fn, l.pkgPath)
	}
	cfg := interp.DefaultConfig()
	cfg.TraceCalls, cfg.TraceInstr = opt.TraceCalls, opt.TraceInstr
	if opt.Solver != "" {
		cfg.SolverKind = opt.Solver
	}
	if opt.SolverTimeoutMs > 0 {
		cfg.SolverTimeoutMs = opt.SolverTimeoutMs
	}
	if h.MaxSteps > 0 {
		cfg.MaxSteps = h.MaxSteps
	}
	if h.MaxDecisions > 0 {
		cfg.MaxDecisions = h.MaxDecisions
	}
	if h.MapOrder != "" {
		cfg.MapOrder = h.MapOrder
	}
	if opt.MaxViolations > 0 {
		cfg.MaxViolations = opt.MaxViolations
	}
	cfg.PanicsAreViolations = !h.NoPanicViolations
	cfg.MaxPaths = opt.MaxPaths
	cfg.Bounds = h.Bounds
	if opt.Verbose {
		cfg.Progress = os.Stderr
	}
	if opt.TimeoutS > 0 {
		cfg.Deadline = time.Now().Add(time.Duration(opt.TimeoutS) * time.Second)
	}
	w := opt.Workers
	if w <= 0 {
		w = 1
	}
	rr := interp.Run(l.prog, fn, cfg, w, opt.NativeSamples)
	res := &Result{Harness: h, Run: rr, LoadTime: l.dur}
	if len(rr.Errors) > 0 {
		res.Err = strings.Join(rr.Errors, "\n")
		return res, nil
	}
	// native validation
	t0 := time.Now()
	var cases []NativeCase
	for _, s := range rr.Samples {
		cases = append(cases, mkCase(h.Fn, s.Model, s.Choices, s.Inputs, rr.Bounds))
	}
	for _, v := range rr.Violations {
		cases = append(cases, mkCase(h.Fn, v.Model, v.Choices, v.Inputs, rr.Bounds))
	}
	if len(cases) > 0 {
		outs, err := NativeReplay(opt, h.Pkg, l.ov, cases)
		if err != nil {
			res.Err = "native replay failed: " + err.Error()
			return res, nil
		}
		for i, s := range rr.Samples {
			o := outs[i]
			res.SamplesChecked++
			schedOnly := o.Outcome == "fail" && len(o.Fails) > 0
			for _, f := range o.Fails {
				if !strings.HasPrefix(f, "sched:") {
					schedOnly = false
				}
			}
			if o.Outcome == "ok" && equalStrs(o.Obs, s.Observed) {
				res.SamplesAgreed++
			} else if schedOnly {
				// the native scheduler took an interleaving on which a schedule-dependent assertion fails; not comparable with this path
				res.SamplesChecked--
			} else {
				res.SampleMismatches = append(res.SampleMismatches, fmt.Sprintf("case %v: native outcome=%s fails=%v panic=%q obs=%v; engine ok obs=%v",
					cases[i], o.Outcome, o.Fails, o.Panic, o.Obs, s.Observed))
			}
		}
		for j, v := range rr.Violations {
			o := outs[len(rr.Samples)+j]
			vr := &ViolationReport{V: v, Case: cases[len(rr.Samples)+j], Native: &outs[len(rr.Samples)+j]}
			switch v.Kind {
			case "panic":
				vr.Reproduced = o.Outcome == "panic"
			default:
				if strings.HasPrefix(v.Label, "race:") {
					// replay under the Go race detector
					fired, _ := NativeReplayRace(opt, h.Pkg, l.ov, []NativeCase{vr.Case})
					vr.Reproduced = fired
				} else if strings.HasPrefix(v.Label, "sched:") {
					// schedule dependent: replay the case repeatedly and accept if any native run shows it
					many := make([]NativeCase, 60)
					for i := range many {
						many[i] = vr.Case
					}
					if outs2, err := NativeReplay(opt, h.Pkg, l.ov, many); err == nil {
						for _, o2 := range outs2 {
							for _, f := range o2.Fails {
								if labelOf(f) == v.Label {
									vr.Reproduced = true
								}
							}
						}
					}
				} else if strings.HasPrefix(v.Label, "write-to-frozen:") || v.Label == "deadlock" || strings.HasPrefix(v.Label, "fault:") {
					// engine-only monitors: not observable natively; reproduced if the native run follows the same path without diverging
					vr.Reproduced = o.Outcome == "ok" || o.Outcome == "fail"
				} else {
					for _, f := range o.Fails {
						if labelOf(f) == v.Label {
							vr.Reproduced = true
						}
					}
					if !vr.Reproduced && o.Outcome == "ok" {
						// the native run may depend on Go's randomised map iteration (e.g. an
						// ordering that is not total): replay the same case repeatedly
						many := make([]NativeCase, 40)
						for i := range many {
							many[i] = vr.Case
						}
						if outs2, err := NativeReplay(opt, h.Pkg, l.ov, many); err == nil {
							for _, o2 := range outs2 {
								for _, f := range o2.Fails {
									if labelOf(f) == v.Label {
										vr.Reproduced = true
									}
								}
							}
						}
					}
				}
			}
			if !vr.Reproduced && len(v.Sched) > 0 && !strings.HasPrefix(v.Label, "race:") {
				// The violation was found on a path with several goroutines and the
				// free-running native run did not show it: the window may be too narrow
				// for the host scheduler. Force the recorded schedule on an instrumented build.
				fc := vr.Case
				fc.Sched = v.Sched
				if outs3, err := NativeReplay(opt, h.Pkg, instrumentedOverlay(opt.Repo, l.ov), []NativeCase{fc, fc, fc}); err == nil {
					for _, o3 := range outs3 {
						hit := false
						if v.Kind == "panic" {
							hit = o3.Outcome == "panic"
						}
						for _, f := range o3.Fails {
							if labelOf(f) == v.Label {
								hit = true
							}
						}
						if hit {
							vr.Reproduced, vr.Forced, vr.Case = true, true, fc
						} else if !vr.Reproduced {
							vr.Native = &NativeOut{Outcome: o3.Outcome, Fails: o3.Fails, Obs: o3.Obs, Panic: o3.Panic}
						}
					}
				} else {
					vr.Native = &NativeOut{Outcome: "forced-replay-error", Panic: err.Error()}
				}
			}
			res.Violations = append(res.Violations, vr)
		}
	}
	res.NativeTime = time.Since(t0)
	return res, nil
}

func labelOf(msg string) string {
	if i := strings.Index(msg, ": "); i > 0 {
		return msg[:i]
	}
	return msg
}

func equalStrs(a, b []string) bool {
	if len(a) != len(b) {
		return false
	}
	for i := range a {
		if a[i] != b[i] {
			return false
		}
	}
	return true
}

func mkCase(harness string, m sym.Model, choices map[string]int, inputs []interp.InputRec, bounds map[string]int) NativeCase {
	c := NativeCase{Harness: harness, Vals: map[string]string{}, Choices: map[string]int{}, Bounds: bounds}
	for _, r := range inputs {
		if r.Kind == "choice" {
			continue
		}
		c.Vals[r.Name] = strconv.FormatUint(m[r.Name], 10)
	}
	for k, v := range choices {
		c.Choices[k] = v
	}
	return c
}

// NativeReplay runs the cases against the natively compiled code in one go test process.
func NativeReplay(opt *Options, pkgRel string, ov map[string][]byte, cases []NativeCase) ([]NativeOut, error) {
	outs, text, err := nativeReplay(opt, pkgRel, ov, cases, false)
	if err == nil {
		return outs, nil
	}
	if !strings.Contains(text, "panic:") && !strings.Contains(text, "fatal error:") {
		return nil, err
	}
	// the test binary died (a panic in a goroutine cannot be recovered by the harness): find the case(s) that kill it
	if len(cases) == 1 {
		msg := "process crashed"
		for _, l := range strings.Split(text, "\n") {
			if strings.HasPrefix(l, "panic:") || strings.HasPrefix(l, "fatal error:") {
				msg = l
				break
			}
		}
		return []NativeOut{{Outcome: "panic", Panic: msg}}, nil
	}
	outs = make([]NativeOut, len(cases))
	for i := range cases {
		o, err := NativeReplay(opt, pkgRel, ov, cases[i:i+1])
		if err != nil {
			return nil, err
		}
		outs[i] = o[0]
	}
	return outs, nil
}

// NativeReplayRace replays cases under the Go race detector and reports whether it fired.
func NativeReplayRace(opt *Options, pkgRel string, ov map[string][]byte, cases []NativeCase) (bool, error) {
	_, text, err := nativeReplay(opt, pkgRel, ov, cases, true)
	return strings.Contains(text, "WARNING: DATA RACE"), err
}

func nativeReplay(opt *Options, pkgRel string, ov map[string][]byte, cases []NativeCase, race bool) ([]NativeOut, string, error) {
	tmp, err := os.MkdirTemp("", "gosymx-replay-")
	if err != nil {
		return nil, "", err
	}
	defer os.RemoveAll(tmp)
	repl := map[string]string{}
	i := 0
	vs := filepath.Join(opt.Repo, "internal", "zzvsched", "vsched.go")
	if _, ok := ov[vs]; !ok {
		ov2 := map[string][]byte{vs: []byte(vschedSrc)}
		for k, v := range ov {
			ov2[k] = v
		}
		ov = ov2
	}
	for path, content := range ov {
		f := filepath.Join(tmp, fmt.Sprintf("ov%d_%s", i, filepath.Base(path)))
		i++
		if err := os.WriteFile(f, content, 0o644); err != nil {
			return nil, "", err
		}
		repl[path] = f
	}
	ovj, _ := json.Marshal(map[string]interface{}{"Replace": repl})
	ovFile := filepath.Join(tmp, "overlay.json")
	os.WriteFile(ovFile, ovj, 0o644)
	inFile := filepath.Join(tmp, "in.json")
	outFile := filepath.Join(tmp, "out.json")
	cj, _ := json.Marshal(cases)
	os.WriteFile(inFile, cj, 0o644)
	args := []string{"test", "-tags", "verif", "-vet=off", "-count=1", "-timeout", "20m", "-run", "^TestVerifReplay$", "-overlay", ovFile}
	if race {
		args = append(args, "-race")
	}
	args = append(args, "./"+pkgRel)
	cmd := exec.Command("go", args...)
	cmd.Dir = opt.Repo
	cmd.Env = append(os.Environ(), "GOFLAGS=-mod=mod", "GOPROXY=off", "GOSUMDB=off", "GOTOOLCHAIN=local", "VERIF_REPLAY="+inFile, "VERIF_OUT="+outFile)
	var buf bytes.Buffer
	cmd.Stdout, cmd.Stderr = &buf, &buf
	runErr := cmd.Run()
	b, err := os.ReadFile(outFile)
	if err != nil {
		return nil, buf.String(), fmt.Errorf("go test produced no output file (%v):\n%s", runErr, tail(buf.String(), 4000))
	}
	var outs []NativeOut
	if err := json.Unmarshal(b, &outs); err != nil {
		return nil, "", err
	}
	if len(outs) != len(cases) {
		return nil, buf.String(), fmt.Errorf("native replay returned %d results for %d cases", len(outs), len(cases))
	}
	return outs, buf.String(), nil
}

func tail(s string, n int) string {
	if len(s) > n {
		return s[len(s)-n:]
	}
	return s
}

func PrintResult(w io.Writer, r *Result) {
	rr := r.Run
	st := rr.Stats
	fmt.Fprintf(w, "harness %s/%s: load %.1fs explore %.1fs native %.1fs\n", r.Harness.Pkg, r.Harness.Fn, r.LoadTime.Seconds(), rr.Wall.Seconds(), r.NativeTime.Seconds())
	fmt.Fprintf(w, "  paths=%d ok=%d infeasible=%d panic=%d unsupported=%d budget=%d  decisions=%d forks=%d steps=%d\n",
		st.Paths, st.PathsOK, st.PathsInfeasible, st.PathsPanic, st.PathsUnsupported, st.PathsBudget, st.Decisions, st.Forks, st.Steps)
	fmt.Fprintf(w, "  asserts=%d proved=%d unknown=%d obligations=%d concretizations=%d maybe-feasible=%d\n",
		st.Asserts, st.AssertsProved, st.AssertsUnknown, st.Obligations, st.Concretizations, st.MaybeFeasible)
	fmt.Fprintf(w, "  solver: queries=%d sat=%d unsat=%d unknown=%d time=%.2fs portfolio=%d/%d; functions encoded=%d\n",
		rr.SolverQueries, rr.SolverSat, rr.SolverUnsat, rr.SolverUnknown, rr.SolverTime.Seconds(), st.PortfolioDecided, st.PortfolioCalls, len(rr.Funcs))
	printMap(w, "  reach", st.Reach)
	printMap(w, "  notes", st.Notes)
	printMap(w, "  unsupported", st.Unsupported)
	printMap(w, "  budget", st.Budget)
	printMap(w, "  concretized", st.ConcWhy)
	fmt.Fprintf(w, "  native cross-validation: %d/%d path models agree\n", r.SamplesAgreed, r.SamplesChecked)
	for _, m := range r.SampleMismatches {
		fmt.Fprintf(w, "  MISMATCH %s\n", m)
	}
	for _, v := range r.Violations {
		fmt.Fprintf(w, "  violation kind=%s label=%s reproduced=%v msg=%s\n    case=%v\n    native=%+v\n", v.V.Kind, v.V.Label, v.Reproduced, v.V.Msg, v.Case, *v.Native)
	}
	if r.Err != "" {
		fmt.Fprintf(w, "  ERROR: %s\n", r.Err)
	}
	if rr.TimedOut {
		fmt.Fprintf(w, "  TIMED OUT (partial exploration)\n")
	}
}

func printMap(w io.Writer, title string, m map[string]int) {
	if len(m) == 0 {
		return
	}
	var ks []string
	for k := range m {
		ks = append(ks, k)
	}
	sort.Strings(ks)
	fmt.Fprintf(w, "%s:\n", title)
	for _, k := range ks {
		fmt.Fprintf(w, "    %6d  %s\n", m[k], k)
	}
}

// SelfTestMain checks the tool chain end to end before any property check is
// trusted: the three solvers answer canned queries identically, a planted
// violation is found by the solver and reproduced natively (vacuity guard),
// and a known-true statement is proved with the sampled paths agreeing with
// the native build.
func SelfTestMain(args []string) int {
	ok := true
	fail := func(f string, a ...interface{}) { ok = false; fmt.Printf("selftest FAIL: "+f+"\n", a...) }
	// 1. solvers
	canned := []struct{ q, want string }{
		{"(declare-const x (_ BitVec 64))(assert (= (bvmul x #x0000000000000003) #x0000000000000015))(assert (bvult x #x0000000000000010))(check-sat)", "sat"},
		{"(declare-const x (_ BitVec 8))(assert (bvugt (bvand x #x0f) #x0f))(check-sat)", "unsat"},
		{"(declare-const f (_ FloatingPoint 11 53))(assert (fp.lt (fp.mul RNE f f) ((_ to_fp 11 53) RNE (- 1.0))))(check-sat)", "unsat"},
	}
	for _, kind := range []string{"z3", "z3-new", "cvc5", "cvc5-int"} {
		for i, cq := range canned {
			if kind == "cvc5-int" && i == 2 {
				continue
			}
			got, err := sym.OneShot(kind, cq.q, 20000)
			if err != nil || got != cq.want {
				fail("solver %s query %d: got %q err %v want %s", kind, i, got, err, cq.want)
			}
		}
	}
	// 2. pipeline
	opt := &Options{Repo: "/repo", HarnessDir: filepath.Join(verifDir(), "harness"), Workers: 8, NativeSamples: 8, MaxViolations: 8, SolverTimeoutMs: 10000}
	if r := os.Getenv("VERIF_REPO"); r != "" {
		opt.Repo = r
	}
	run := func(fn string) *Result {
		o := *opt
		o.Solver = "cvc5-int-oneshot"
		o.TimeoutS = 200
		res, err := RunHarness(&Harness{Pkg: "profile", Fn: fn, Name: fn, MaxDecisions: 2000}, &o)
		if err != nil {
			fail("%s: %v", fn, err)
			return nil
		}
		return res
	}
	if res := run("VerifSelfTestWitness"); res != nil {
		var gotAssert, gotPanic bool
		for _, v := range res.Violations {
			if v.V.Label == "selftest.witness" && v.Reproduced {
				gotAssert = true
			}
			if v.V.Kind == "panic" && v.Reproduced {
				gotPanic = true
			}
		}
		if !gotAssert {
			fail("planted assertion violation not found or not reproduced natively")
		}
		if !gotPanic {
			fail("planted nil dereference not found or not reproduced natively")
		}
	}
	if res := run("VerifSelfTestProof"); res != nil {
		if len(res.Violations) != 0 || res.Run.Stats.AssertsProved == 0 || res.Run.Stats.AssertsUnknown != 0 {
			fail("proof harness: violations=%d proved=%d unknown=%d", len(res.Violations), res.Run.Stats.AssertsProved, res.Run.Stats.AssertsUnknown)
		}
		if res.SamplesChecked == 0 || res.SamplesAgreed != res.SamplesChecked {
			fail("proof harness: native cross-validation %d/%d", res.SamplesAgreed, res.SamplesChecked)
		}
	}
	if !ok {
		return 2
	}
	fmt.Println("selftest: ok (solvers agree on canned queries; planted violation and panic found and reproduced natively; varint round trip proved)")
	return 0
}

func ParseBounds(s string) map[string]int {
	m := map[string]int{}
	for _, kv := range strings.Split(s, ",") {
		if i := strings.IndexByte(kv, '='); i > 0 {
			v, _ := strconv.Atoi(kv[i+1:])
			m[kv[:i]] = v
		}
	}
	return m
}

// RunConcrete executes one concrete assignment in the interpreter and natively and prints both.
func RunConcrete(h *Harness, opt *Options, spec string) int {
	l, err := loadPkg(opt, h.Pkg)
	if err != nil {
		fmt.Println(err)
		return 2
	}
	fn := l.prog.FindFunc(l.pkgPath, h.Fn)
	cfg := interp.DefaultConfig()
	cfg.TraceCalls, cfg.TraceInstr = opt.TraceCalls, opt.TraceInstr
	cfg.Concrete = sym.Model{}
	cfg.ConcreteChoices = map[string]int{}
	cfg.Bounds = h.Bounds
	nc := NativeCase{Harness: h.Fn, Vals: map[string]string{}, Choices: map[string]int{}, Bounds: h.Bounds}
	for _, kv := range strings.Fields(strings.ReplaceAll(spec, ",", " ")) {
		i := strings.IndexByte(kv, ':')
		if i < 0 {
			i = strings.IndexByte(kv, '=')
		}
		if i < 0 {
			continue
		}
		v, _ := strconv.ParseUint(kv[i+1:], 0, 64)
		cfg.Concrete[kv[:i]] = v
		cfg.ConcreteChoices[kv[:i]] = int(v)
		nc.Vals[kv[:i]] = strconv.FormatUint(v, 10)
		nc.Choices[kv[:i]] = int(v)
	}
	rr := interp.Run(l.prog, fn, cfg, 1, 1)
	fmt.Printf("engine: paths=%d ok=%d panic=%d unsupported=%v errors=%v\n", rr.Stats.Paths, rr.Stats.PathsOK, rr.Stats.PathsPanic, rr.Stats.Unsupported, rr.Errors)
	for _, s := range rr.Samples {
		fmt.Printf("engine obs: %v\n", s.Observed)
	}
	for _, v := range rr.Violations {
		fmt.Printf("engine violation: %s %s\n", v.Label, v.Msg)
	}
	outs, err := NativeReplay(opt, h.Pkg, l.ov, []NativeCase{nc})
	if err != nil {
		fmt.Println("native:", err)
		return 2
	}
	fmt.Printf("native: %+v\n", outs[0])
	return 0
}
