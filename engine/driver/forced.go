package driver

import (
	"bytes"
	"go/ast"
	"go/parser"
	"go/printer"
	"go/token"
	"os"
	"path/filepath"
	"strconv"
	"strings"

	"golang.org/x/tools/go/ast/astutil"
)

// Forced-schedule native replay. A schedule-dependent violation found by the
// engine is a sequence of baton hand-offs (interp.SchedEvent). To confirm it
// against the natively compiled code the repository's sources are instrumented
// - in an overlay, for this one replay only - so that every switch point the
// engine knows (go statements, Lock/RLock/Wait/Do calls, channel sends and
// simple receives, vYield) reports to a small run-time (package zzvsched, also
// overlay-only) that makes the native goroutines take turns in exactly the
// recorded order. If the native execution diverges from the record the
// run-time gives up after a time-out and the run continues unforced (the
// violation then simply does not reproduce).

const vschedImport = "github.com/google/pprof/internal/zzvsched"

const vschedSrc = `// Package zzvsched exists only in the overlay of a forced-schedule native replay.
package zzvsched

import (
	"runtime"
	"strconv"
	"strings"
	"sync"
	"time"
)

type Event struct {
	From int    ` + "`json:\"from\"`" + `
	Kind string ` + "`json:\"kind\"`" + `
	Site string ` + "`json:\"site\"`" + `
	Next int    ` + "`json:\"next\"`" + `
}

var (
	mu       sync.Mutex
	cond     = sync.NewCond(&mu)
	log      []Event
	idx      int
	owner    int
	active   bool
	ids      = map[int64]int{}
	nextID   int
	live     int
	progress time.Time
	Diverged string
)

func goid() int64 {
	var buf [64]byte
	n := runtime.Stack(buf[:], false)
	f := strings.Fields(string(buf[:n]))
	if len(f) < 2 {
		return -1
	}
	id, _ := strconv.ParseInt(f[1], 10, 64)
	return id
}

// Activate starts forcing the given schedule; the caller is goroutine 0.
func Activate(l []Event) {
	mu.Lock()
	log, idx, owner, active, nextID, live = l, 0, 0, len(l) > 0, 1, 0
	ids = map[int64]int{goid(): 0}
	progress = time.Now()
	Diverged = ""
	mu.Unlock()
	if len(l) > 0 {
		go watchdog(l)
	}
}

func deactivate(why string) {
	if active {
		active = false
		if Diverged == "" {
			Diverged = why
		}
	}
	cond.Broadcast()
}

func watchdog(l []Event) {
	for {
		time.Sleep(2 * time.Millisecond)
		mu.Lock()
		if !active || len(log) == 0 || &log[0] != &l[0] {
			mu.Unlock()
			return
		}
		idle := time.Since(progress)
		if idx < len(log) && (log[idx].Kind == "block" || log[idx].Kind == "drain") && log[idx].From == owner && idle > 20*time.Millisecond {
			// the owner is blocked inside a real lock/wait: the recorded run handed the baton on
			owner = log[idx].Next
			idx++
			progress = time.Now()
			cond.Broadcast()
		} else if idle > 1500*time.Millisecond {
			deactivate("no progress at event " + strconv.Itoa(idx))
		}
		mu.Unlock()
	}
}

func me() (int, bool) {
	id, ok := ids[goid()]
	return id, ok
}

// waitOwner blocks until goroutine x holds the baton (or forcing has ended).
func waitOwner(x int) {
	for active && owner != x {
		cond.Wait()
	}
}

func arrive(x int, kind, site string) {
	waitOwner(x)
	if !active {
		return
	}
	// skip recorded switch points of x that this build does not report and at which nothing happened
	for idx < len(log) && log[idx].From == x && log[idx].Kind == "point" && log[idx].Next == x && kind == "point" && log[idx].Site != site {
		idx++
	}
	if idx >= len(log) {
		deactivate("")
		return
	}
	e := log[idx]
	if e.From != x || (e.Kind != kind && !(kind == "point" && e.Kind == "block")) {
		deactivate("event " + strconv.Itoa(idx) + " is " + e.Kind + " of g" + strconv.Itoa(e.From) + " at " + e.Site + ", native g" + strconv.Itoa(x) + " arrived with " + kind + " at " + site)
		return
	}
	if e.Kind == "block" && kind == "point" {
		// recorded: x went straight into a blocking operation; the watchdog hands on when it really blocks
		return
	}
	idx++
	owner = e.Next
	progress = time.Now()
	cond.Broadcast()
	if idx >= len(log) {
		deactivate("")
	}
}

// NewID is called by the spawner at a go statement.
func NewID() int {
	mu.Lock()
	defer mu.Unlock()
	id := nextID
	nextID++
	live++
	return id
}

// Start is the first thing a spawned goroutine does.
func Start(id int) {
	mu.Lock()
	defer mu.Unlock()
	ids[goid()] = id
	waitOwner(id)
}

// Exit is deferred by a spawned goroutine.
func Exit(id int) {
	mu.Lock()
	defer mu.Unlock()
	live--
	if active {
		arrive(id, "exit", "")
	}
	cond.Broadcast()
}

// Point is called before an operation at which the engine may switch goroutines.
func Point(site string) {
	mu.Lock()
	defer mu.Unlock()
	if !active {
		return
	}
	x, ok := me()
	if !ok {
		return
	}
	arrive(x, "point", site)
	waitOwner(x)
}

// Acquired is called after a possibly blocking operation returned.
func Acquired() {
	mu.Lock()
	defer mu.Unlock()
	if !active {
		return
	}
	x, ok := me()
	if !ok {
		return
	}
	progress = time.Now()
	waitOwner(x)
}

// Drain waits (bounded) for the spawned goroutines and ends forcing.
func Drain() {
	mu.Lock()
	defer mu.Unlock()
	if active {
		if x, ok := me(); ok && idx < len(log) && log[idx].From == x && log[idx].Kind == "drain" {
			owner = log[idx].Next
			idx++
			progress = time.Now()
			cond.Broadcast()
		}
	}
	deadline := time.Now().Add(2 * time.Second)
	for live > 0 && time.Now().Before(deadline) {
		mu.Unlock()
		time.Sleep(time.Millisecond)
		mu.Lock()
	}
	deactivate("")
}
`

// instrumentFile rewrites one Go source file; it returns nil if nothing changed.
func instrumentFile(path string, src []byte) []byte {
	fset := token.NewFileSet()
	f, err := parser.ParseFile(fset, path, src, parser.ParseComments)
	if err != nil {
		return nil
	}
	changed := false
	seq := 0
	call := func(fn string, args ...ast.Expr) ast.Stmt {
		return &ast.ExprStmt{X: &ast.CallExpr{Fun: &ast.SelectorExpr{X: ast.NewIdent("zzvsched"), Sel: ast.NewIdent(fn)}, Args: args}}
	}
	lit := func(s string) ast.Expr { return &ast.BasicLit{Kind: token.STRING, Value: strconv.Quote(s)} }
	siteOf := func(p token.Pos) string { return fset.Position(p).String() }
	isSwitchCall := func(c *ast.CallExpr) bool {
		sel, ok := c.Fun.(*ast.SelectorExpr)
		if !ok {
			return false
		}
		switch sel.Sel.Name {
		case "Lock", "RLock", "Wait":
			return len(c.Args) == 0
		case "Do":
			return len(c.Args) == 1
		}
		return false
	}
	astutil.Apply(f, func(c *astutil.Cursor) bool {
		// only statements that sit in a statement list can be replaced by a block
		if _, inList := c.Parent().(*ast.BlockStmt); !inList {
			if _, inCase := c.Parent().(*ast.CaseClause); !inCase {
				if _, inComm := c.Parent().(*ast.CommClause); !inComm {
					return true
				}
			}
		}
		if c.Index() < 0 {
			return true
		}
		switch st := c.Node().(type) {
		case *ast.ExprStmt:
			if ce, ok := st.X.(*ast.CallExpr); ok && isSwitchCall(ce) {
				c.Replace(&ast.BlockStmt{List: []ast.Stmt{call("Point", lit(siteOf(ce.Lparen))), st, call("Acquired")}})
				changed = true
				return false
			}
			if ue, ok := st.X.(*ast.UnaryExpr); ok && ue.Op == token.ARROW {
				c.Replace(&ast.BlockStmt{List: []ast.Stmt{call("Point", lit(siteOf(ue.OpPos))), st, call("Acquired")}})
				changed = true
				return false
			}
		case *ast.SendStmt:
			c.Replace(&ast.BlockStmt{List: []ast.Stmt{call("Point", lit(siteOf(st.Arrow))), st, call("Acquired")}})
			changed = true
			return false
		case *ast.GoStmt:
			seq++
			n := strconv.Itoa(seq)
			idv := ast.NewIdent("zzid" + n)
			fv := ast.NewIdent("zzf" + n)
			pre := []ast.Stmt{
				&ast.AssignStmt{Lhs: []ast.Expr{idv}, Tok: token.DEFINE, Rhs: []ast.Expr{&ast.CallExpr{Fun: &ast.SelectorExpr{X: ast.NewIdent("zzvsched"), Sel: ast.NewIdent("NewID")}}}},
				&ast.AssignStmt{Lhs: []ast.Expr{fv}, Tok: token.DEFINE, Rhs: []ast.Expr{st.Call.Fun}},
			}
			var args []ast.Expr
			for i, a := range st.Call.Args {
				av := ast.NewIdent("zza" + n + "_" + strconv.Itoa(i))
				pre = append(pre, &ast.AssignStmt{Lhs: []ast.Expr{av}, Tok: token.DEFINE, Rhs: []ast.Expr{a}})
				args = append(args, av)
			}
			inner := &ast.CallExpr{Fun: fv, Args: args, Ellipsis: st.Call.Ellipsis}
			body := &ast.BlockStmt{List: []ast.Stmt{
				call("Start", idv),
				&ast.DeferStmt{Call: &ast.CallExpr{Fun: &ast.SelectorExpr{X: ast.NewIdent("zzvsched"), Sel: ast.NewIdent("Exit")}, Args: []ast.Expr{idv}}},
				&ast.ExprStmt{X: inner},
			}}
			g := &ast.GoStmt{Call: &ast.CallExpr{Fun: &ast.FuncLit{Type: &ast.FuncType{Params: &ast.FieldList{}}, Body: body}}}
			c.Replace(&ast.BlockStmt{List: append(pre, g)})
			changed = true
			return false
		}
		return true
	}, nil)
	if !changed {
		return nil
	}
	astutil.AddImport(fset, f, vschedImport)
	var buf bytes.Buffer
	if err := printer.Fprint(&buf, fset, f); err != nil {
		return nil
	}
	return buf.Bytes()
}

// instrumentedOverlay returns the overlay of a forced-schedule replay: the
// harness overlay with instrumented harness files, instrumented copies of the
// repository's own sources, and the zzvsched run-time.
func instrumentedOverlay(repo string, ov map[string][]byte) map[string][]byte {
	out := map[string][]byte{}
	for p, c := range ov {
		out[p] = c
		if strings.HasSuffix(p, ".go") && !strings.HasSuffix(p, "_test.go") && !strings.Contains(filepath.Base(p), "zz_verif_rt") {
			if b := instrumentFile(p, c); b != nil {
				out[p] = b
			}
		}
	}
	for _, root := range []string{"profile", "internal"} {
		filepath.Walk(filepath.Join(repo, root), func(p string, info os.FileInfo, err error) error {
			if err != nil {
				return nil
			}
			if info.IsDir() {
				if n := info.Name(); n == "testdata" || n == "zzvsched" {
					return filepath.SkipDir
				}
				return nil
			}
			if !strings.HasSuffix(p, ".go") || strings.HasSuffix(p, "_test.go") {
				return nil
			}
			if _, inOv := out[p]; inOv {
				return nil
			}
			src, err := os.ReadFile(p)
			if err != nil {
				return nil
			}
			if b := instrumentFile(p, src); b != nil {
				out[p] = b
			}
			return nil
		})
	}
	out[filepath.Join(repo, "internal", "zzvsched", "vsched.go")] = []byte(vschedSrc)
	return out
}
