package interp

import (
	"fmt"
	"go/constant"
	"go/token"
	"go/types"
	"math"
	"unicode/utf8"

	"gosymx/sym"

	"golang.org/x/tools/go/ssa"
)

func (in *Interp) constValue0(c *ssa.Const) Value {
	ctx := in.ctx
	if c.Value == nil {
		return in.zero(c.Type())
	}
	t, ok := c.Type().Underlying().(*types.Basic)
	if !ok {
		// constant of type parameter etc.
		panic(fmt.Sprintf("constValue: %v", c))
	}
	switch {
	case t.Kind() == types.Bool || t.Kind() == types.UntypedBool:
		return ctx.BoolC(constant.BoolVal(c.Value))
	case t.Info()&types.IsInteger != 0:
		if t.Info()&types.IsUnsigned != 0 {
			return ctx.BVC(in.width(t), c.Uint64())
		}
		return ctx.BVC(in.width(t), uint64(c.Int64()))
	case t.Kind() == types.Float32:
		return ctx.F32C(float32(c.Float64()))
	case t.Kind() == types.Float64 || t.Kind() == types.UntypedFloat:
		return ctx.F64C(c.Float64())
	case t.Info()&types.IsString != 0:
		if c.Value.Kind() == constant.String {
			return constant.StringVal(c.Value)
		}
		return string(rune(c.Int64()))
	case t.Kind() == types.UntypedRune || t.Kind() == types.UntypedInt:
		return ctx.BVC(64, uint64(c.Int64()))
	}
	panic(fmt.Sprintf("constValue: %s", c))
}

// ---------- load/store ----------

func (in *Interp) load(fr *frame, addr *Value, pos token.Pos) Value {
	if in.mon != nil {
		in.mon.onRead(fr, addr, pos)
	}
	return copyVal(*addr)
}

func (in *Interp) store(fr *frame, addr *Value, v Value, pos token.Pos) {
	if in.mon != nil {
		in.mon.onWrite(fr, addr, pos)
	}
	*addr = copyVal(v)
}

// ---------- unop / binop ----------

func (fr *frame) unop(instr *ssa.UnOp, x Value) Value {
	in := fr.in
	c := in.ctx
	switch instr.Op {
	case token.ARROW:
		v, ok := in.chanRecv(fr, x.(*Chan), instr.X.Type().Underlying().(*types.Chan).Elem())
		if !instr.CommaOk {
			return v
		}
		return Tuple{v, c.BoolC(ok)}
	case token.SUB:
		t := x.(*sym.Term)
		if t.Sort.K == sym.KFP {
			return c.FNeg(t)
		}
		return c.Neg(t)
	case token.MUL:
		p := x.(*Value)
		if p == nil {
			fr.rtPanic(instr.Pos(), "invalid memory address or nil pointer dereference")
		}
		return in.load(fr, p, instr.Pos())
	case token.NOT:
		return c.Not(x.(*sym.Term))
	case token.XOR:
		return c.BNot(x.(*sym.Term))
	}
	panic(fmt.Sprintf("invalid unary op %s %T", instr.Op, x))
}

func (in *Interp) isNilValue(v Value) bool {
	switch v := v.(type) {
	case *Value:
		return v == nil
	case []Value:
		return v == nil
	case *Map:
		return v == nil
	case *Chan:
		return v == nil
	case *ssa.Function:
		return v == nil
	case *Closure:
		return v == nil
	case *NativeFunc:
		return v == nil
	case *Native:
		return v == nil || !v.V.IsValid() || (v.V.Kind() == 22 /*Ptr*/ && v.V.IsNil())
	case Iface:
		return v.T == nil
	case *SymRegexp:
		return v == nil
	case nil:
		return true
	}
	return false
}

// eqVal returns the term x == y for comparable values of static type t.
func (in *Interp) eqVal(x, y Value) *sym.Term {
	c := in.ctx
	switch x := x.(type) {
	case *sym.Term:
		yt := y.(*sym.Term)
		if x.Sort.K == sym.KFP {
			if r := in.intCompare(token.EQL, x, yt); r != nil {
				return r
			}
			return c.FEq(x, yt)
		}
		return c.Eq(x, yt)
	case string, *SStr:
		return in.strEq(x, y)
	case *Value:
		if yy, ok := y.(*Value); ok {
			return c.BoolC(x == yy)
		}
		return c.BoolC(in.isNilValue(x) && in.isNilValue(y))
	case Iface:
		yi := y.(Iface)
		if x.T == nil || yi.T == nil {
			return c.BoolC(x.T == nil && yi.T == nil)
		}
		if !types.Identical(x.T, yi.T) {
			return c.False()
		}
		return in.eqVal(x.V, yi.V)
	case Struct:
		ys := y.(Struct)
		r := c.True()
		for i := range x {
			r = c.And(r, in.eqVal(x[i], ys[i]))
			if r.IsFalse() {
				return r
			}
		}
		return r
	case Array:
		ys := y.(Array)
		r := c.True()
		for i := range x {
			r = c.And(r, in.eqVal(x[i], ys[i]))
			if r.IsFalse() {
				return r
			}
		}
		return r
	case *Native:
		yn, ok := y.(*Native)
		if !ok {
			return c.BoolC(in.isNilValue(x) && in.isNilValue(y))
		}
		if in.isNilValue(x) || in.isNilValue(yn) {
			return c.BoolC(in.isNilValue(x) && in.isNilValue(yn))
		}
		if x.V.Kind() == 22 && yn.V.Kind() == 22 {
			return c.BoolC(x.V.Pointer() == yn.V.Pointer())
		}
		return c.BoolC(x.V.Interface() == yn.V.Interface())
	case *Map:
		ym, _ := y.(*Map)
		return c.BoolC(x == ym)
	case *Chan:
		yc, _ := y.(*Chan)
		return c.BoolC(x == yc)
	case []Value:
		// only comparable to nil
		return c.BoolC(x == nil && in.isNilValue(y))
	case *SymRegexp:
		yr, _ := y.(*SymRegexp)
		return c.BoolC(x == yr)
	case *lazyErr:
		// errors made by fmt.Errorf are pointers: identity
		yl, _ := y.(*lazyErr)
		return c.BoolC(x == yl)
	case *ssa.Function, *Closure, *NativeFunc:
		return c.BoolC(in.isNilValue(x) && in.isNilValue(y))
	case nil:
		return c.BoolC(in.isNilValue(y))
	}
	panic(fmt.Sprintf("eqVal: incomparable %T", x))
}

func (fr *frame) binop(op token.Token, t types.Type, x, y Value, pos token.Pos) Value {
	in := fr.in
	c := in.ctx
	switch op {
	case token.EQL:
		return in.eqVal(x, y)
	case token.NEQ:
		return c.Not(in.eqVal(x, y))
	}
	// strings
	switch x.(type) {
	case string, *SStr:
		switch op {
		case token.ADD:
			return in.strConcat(x, y)
		case token.LSS:
			return in.strLess(x, y)
		case token.GTR:
			return in.strLess(y, x)
		case token.LEQ:
			return c.Not(in.strLess(y, x))
		case token.GEQ:
			return c.Not(in.strLess(x, y))
		}
		panic("bad string binop " + op.String())
	}
	a, okA := x.(*sym.Term)
	b, okB := y.(*sym.Term)
	if !okA || !okB {
		panic(fmt.Sprintf("binop %s on %T, %T", op, x, y))
	}
	if a.Sort.K == sym.KFP {
		if r := in.intCompare(op, a, b); r != nil {
			return r
		}
		switch op {
		case token.ADD:
			return c.FAdd(a, b)
		case token.SUB:
			return c.FSub(a, b)
		case token.MUL:
			return c.FMul(a, b)
		case token.QUO:
			return c.FDiv(a, b)
		case token.LSS:
			return c.FLt(a, b)
		case token.LEQ:
			return c.FLe(a, b)
		case token.GTR:
			return c.FLt(b, a)
		case token.GEQ:
			return c.FLe(b, a)
		}
		panic("bad float binop " + op.String())
	}
	if a.Sort.K == sym.KBool {
		panic("bad bool binop " + op.String())
	}
	signed := isSigned(t)
	switch op {
	case token.ADD:
		return c.Add(a, b)
	case token.SUB:
		return c.Sub(a, b)
	case token.MUL:
		return c.Mul(a, b)
	case token.QUO, token.REM:
		nz := c.Not(c.Eq(b, c.BVC(b.Sort.W, 0)))
		if !in.branchObl(nz, fr, pos) {
			fr.rtPanic(pos, "integer divide by zero")
		}
		if op == token.QUO {
			if signed {
				return c.SDiv(a, b)
			}
			return c.UDiv(a, b)
		}
		if signed {
			return c.SRem(a, b)
		}
		return c.URem(a, b)
	case token.AND:
		return c.BAnd(a, b)
	case token.OR:
		return c.BOr(a, b)
	case token.XOR:
		return c.BXor(a, b)
	case token.AND_NOT:
		return c.BAnd(a, c.BNot(b))
	case token.SHL, token.SHR:
		// y's type may differ; negative signed shift counts panic.
		w := a.Sort.W
		sh := b
		if sh.Sort.W < w {
			sh = c.ZExt(sh, w) // callers guarantee non-negative (checked below by ssa? no) -- see note
		}
		var big *sym.Term
		if sh.Sort.W > w {
			big = c.Not(c.ULt(sh, c.BVC(sh.Sort.W, uint64(w))))
			sh = c.Extract(sh, w-1, 0)
		}
		var r *sym.Term
		switch {
		case op == token.SHL:
			r = c.Shl(a, sh)
			if big != nil {
				r = c.Ite(big, c.BVC(w, 0), r)
			}
		case signed:
			r = c.AShr(a, sh)
			if big != nil {
				r = c.Ite(big, c.AShr(a, c.BVC(w, uint64(w-1))), r)
			}
		default:
			r = c.LShr(a, sh)
			if big != nil {
				r = c.Ite(big, c.BVC(w, 0), r)
			}
		}
		return r
	case token.LSS:
		if signed {
			return c.SLt(a, b)
		}
		return c.ULt(a, b)
	case token.LEQ:
		if signed {
			return c.SLe(a, b)
		}
		return c.ULe(a, b)
	case token.GTR:
		if signed {
			return c.SLt(b, a)
		}
		return c.ULt(b, a)
	case token.GEQ:
		if signed {
			return c.SLe(b, a)
		}
		return c.ULe(b, a)
	}
	panic("bad int binop " + op.String())
}

// ---------- conversions ----------

func (fr *frame) conv(tDst, tSrc types.Type, x Value) Value {
	in := fr.in
	c := in.ctx
	uSrc := tSrc.Underlying()
	uDst := tDst.Underlying()
	switch uSrc := uSrc.(type) {
	case *types.Pointer:
		if b, ok := uDst.(*types.Basic); ok && b.Kind() == types.UnsafePointer {
			return x
		}
		return x
	case *types.Slice:
		// []byte / []rune -> string
		xs := x.([]Value)
		eb := uSrc.Elem().Underlying().(*types.Basic)
		switch eb.Kind() {
		case types.Byte:
			bs := make([]*sym.Term, len(xs))
			for i, e := range xs {
				bs[i] = e.(*sym.Term)
			}
			return in.strFromBytes(bs)
		case types.Rune:
			var out []byte
			for _, e := range xs {
				r := in.concreteInt(e, "rune to string")
				out = utf8.AppendRune(out, rune(r))
			}
			return string(out)
		}
	case *types.Basic:
		if uSrc.Kind() == types.UnsafePointer {
			return x
		}
		// string -> ...
		if uSrc.Info()&types.IsString != 0 {
			switch d := uDst.(type) {
			case *types.Slice:
				switch d.Elem().Underlying().(*types.Basic).Kind() {
				case types.Byte:
					bs, ok := in.bytesOfStr(x)
					if !ok {
						bs, _ = in.bytesOfStr(in.concretizeAtoms(x, "string to []byte"))
					}
					out := make([]Value, len(bs))
					for i, b := range bs {
						out[i] = b
					}
					if out == nil {
						out = []Value{}
					}
					return out
				case types.Rune:
					s := in.concreteString(x, "string to []rune")
					out := []Value{}
					for _, r := range s {
						out = append(out, c.BVC(32, uint64(r)))
					}
					return out
				}
			case *types.Basic:
				if d.Info()&types.IsString != 0 {
					return x
				}
			}
			panic(fmt.Sprintf("conv: string -> %v", tDst))
		}
		d, ok := uDst.(*types.Basic)
		if !ok {
			panic(fmt.Sprintf("conv: %v -> %v", tSrc, tDst))
		}
		t := x.(*sym.Term)
		// integer -> string
		if uSrc.Info()&types.IsInteger != 0 && d.Info()&types.IsString != 0 {
			r := in.concreteInt(t, "integer to string conversion")
			return string(rune(r))
		}
		switch {
		case uSrc.Info()&types.IsInteger != 0 && d.Info()&types.IsInteger != 0:
			w := in.width(d)
			if w <= t.Sort.W {
				return c.Extract(t, w-1, 0)
			}
			if uSrc.Info()&types.IsUnsigned != 0 {
				return c.ZExt(t, w)
			}
			return c.SExt(t, w)
		case uSrc.Info()&types.IsInteger != 0 && d.Info()&types.IsFloat != 0:
			s := sym.F64
			if d.Kind() == types.Float32 {
				s = sym.F32
			}
			if uSrc.Info()&types.IsUnsigned != 0 {
				return c.UToF(t, s)
			}
			if t.Op == sym.OpNeg && !t.IsConst() {
				// float(-x) = -float(x) unless x == MinInt (sign symmetry of RNE);
				// written as an exact ite so that negations can be normalised outward.
				x := t.Args[0]
				minInt := c.BVC(x.Sort.W, uint64(1)<<uint(x.Sort.W-1))
				isMin := c.Eq(x, minInt)
				neg := c.FNeg(c.SToF(x, s))
				if in.mustBeFalse(isMin) {
					return neg
				}
				return c.Ite(isMin, c.SToF(minInt, s), neg)
			}
			return c.SToF(t, s)
		case uSrc.Info()&types.IsFloat != 0 && d.Info()&types.IsInteger != 0:
			return in.floatToInt(t, d)
		case uSrc.Info()&types.IsFloat != 0 && d.Info()&types.IsFloat != 0:
			s := sym.F64
			if d.Kind() == types.Float32 {
				s = sym.F32
			}
			return c.FToF(t, s)
		case uSrc.Kind() == types.Bool && d.Kind() == types.Bool:
			return t
		}
	}
	panic(fmt.Sprintf("unsupported conversion: %s -> %s, dynamic type %T", tSrc, tDst, x))
}

// floatToInt models amd64: out-of-range and NaN give 0x8000... for signed
// 64/32-bit targets; narrower targets go through int64 then truncate.
func (in *Interp) floatToInt(t *sym.Term, d *types.Basic) *sym.Term {
	c := in.ctx
	w := in.width(d)
	if t.Sort.W == 32 {
		t = c.FToF(t, sym.F64)
	}
	unsigned := d.Info()&types.IsUnsigned != 0
	if t.IsConst() {
		f := t.Float()
		if unsigned && w == 64 {
			return c.BVC(64, cvtF2U64(f))
		}
		v := cvtF2I64(f)
		return c.BVC(w, uint64(v))
	}
	// int64(float64(x) * 2^k): exact integer arithmetic while |x| < 2^53
	// (float64(x) is then exact and scaling by a power of two does not round
	// before the truncation).
	if r := in.exactScaledInt(t, d); r != nil {
		return r
	}
	if t.Op == sym.OpIte && t.Args[1].IsConst() && t.Args[2].IsConst() {
		return c.Ite(t.Args[0], in.floatToInt(t.Args[1], d), in.floatToInt(t.Args[2], d))
	}
	in.note("float->int conversion modelled with amd64 semantics for out-of-range values")
	two63 := c.F64C(math.Ldexp(1, 63))
	inRange := c.And(c.FLt(t, two63), c.FLe(c.F64C(-math.Ldexp(1, 63)), t))
	s64 := c.Ite(inRange, c.FToS(t, 64), c.BVC(64, 1<<63))
	if unsigned && w == 64 {
		// Go: if x < 2^63 { uint64(int64(x)) } else { uint64(int64(x-2^63)) ^ 1<<63 }
		y := c.FSub(t, two63)
		yIn := c.And(c.FLt(y, two63), c.FLe(c.F64C(-math.Ldexp(1, 63)), y))
		hi := c.BXor(c.Ite(yIn, c.FToS(y, 64), c.BVC(64, 1<<63)), c.BVC(64, 1<<63))
		return c.Ite(c.FLt(t, two63), s64, hi)
	}
	if w == 64 {
		return s64
	}
	return c.Extract(s64, w-1, 0)
}

func cvtF2I64(f float64) int64 {
	if f != f || f >= math.Ldexp(1, 63) || f < -math.Ldexp(1, 63) {
		return math.MinInt64
	}
	return int64(f)
}
func cvtF2U64(f float64) uint64 {
	if f < math.Ldexp(1, 63) {
		return uint64(cvtF2I64(f))
	}
	return uint64(cvtF2I64(f-math.Ldexp(1, 63))) ^ (1 << 63)
}

// ---------- indexing ----------

func (in *Interp) idx64(idx *sym.Term, t types.Type) *sym.Term {
	if idx.Sort.W == 64 {
		return idx
	}
	if isSigned(t) {
		return in.ctx.SExt(idx, 64)
	}
	return in.ctx.ZExt(idx, 64)
}

// indexCheck enforces 0 <= idx < n and returns a concrete index (forking on
// the value of a symbolic index).
func (fr *frame) indexCheck(idx *sym.Term, t types.Type, n int, pos token.Pos) int {
	in := fr.in
	c := in.ctx
	i64 := in.idx64(idx, t)
	if i64.IsConst() {
		v := i64.Int64()
		if v < 0 || v >= int64(n) {
			fr.rtPanic(pos, fmt.Sprintf("index out of range [%d] with length %d", v, n))
		}
		return int(v)
	}
	ok := c.ULt(i64, in.intC(int64(n)))
	if !in.branchObl(ok, fr, pos) {
		fr.rtPanic(pos, fmt.Sprintf("index out of range [symbolic] with length %d", n))
	}
	return int(in.forkInt(fr, i64, "index", pos))
}

// indexRead reads xs[idx]; a symbolic index over scalar cells becomes an ite chain.
func (fr *frame) indexRead(xs []Value, idx *sym.Term, t types.Type, pos token.Pos) Value {
	in := fr.in
	c := in.ctx
	i64 := in.idx64(idx, t)
	if i64.IsConst() {
		v := i64.Int64()
		if v < 0 || v >= int64(len(xs)) {
			fr.rtPanic(pos, fmt.Sprintf("index out of range [%d] with length %d", v, len(xs)))
		}
		return copyVal(xs[v])
	}
	ok := c.ULt(i64, in.intC(int64(len(xs))))
	if !in.branchObl(ok, fr, pos) {
		fr.rtPanic(pos, fmt.Sprintf("index out of range [symbolic] with length %d", len(xs)))
	}
	// scalar cells?
	allTerms := len(xs) > 0
	for _, e := range xs {
		if _, isT := e.(*sym.Term); !isT {
			allTerms = false
			break
		}
	}
	if allTerms && len(xs) <= 256 {
		r := xs[len(xs)-1].(*sym.Term)
		for j := len(xs) - 2; j >= 0; j-- {
			r = c.Ite(c.Eq(i64, in.intC(int64(j))), xs[j].(*sym.Term), r)
		}
		return r
	}
	return copyVal(xs[in.forkInt(fr, i64, "index", pos)])
}

func (fr *frame) strIndex(s Value, idx *sym.Term, t types.Type, pos token.Pos) Value {
	in := fr.in
	bs, ok := in.bytesOfStr(s)
	if !ok {
		bs, _ = in.bytesOfStr(in.concretizeAtoms(s, "indexing formatted number"))
	}
	xs := make([]Value, len(bs))
	for i, b := range bs {
		xs[i] = b
	}
	return fr.indexRead(xs, idx, t, pos)
}

func (fr *frame) slice(instr *ssa.Slice, x, lo, hi, max Value) Value {
	in := fr.in
	pos := instr.Pos()
	var Len, Cap int
	switch x := x.(type) {
	case string:
		Len, Cap = len(x), len(x)
	case *SStr:
		Len = int(in.concreteInt(in.strLen(x), "string length"))
		Cap = Len
	case []Value:
		Len, Cap = len(x), cap(x)
	case *Value:
		if x == nil {
			fr.rtPanic(pos, "invalid memory address or nil pointer dereference")
		}
		a := (*x).(Array)
		Len, Cap = len(a), cap(a)
	}
	l := 0
	if lo != nil {
		l = int(in.forkIntBounded(fr, in.idx64(lo.(*sym.Term), instr.Low.Type()), Cap, "slice low", pos))
	}
	h := Len
	if hi != nil {
		h = int(in.forkIntBounded(fr, in.idx64(hi.(*sym.Term), instr.High.Type()), Cap, "slice high", pos))
	}
	m := Cap
	if max != nil {
		m = int(in.forkIntBounded(fr, in.idx64(max.(*sym.Term), instr.Max.Type()), Cap, "slice max", pos))
	}
	switch x := x.(type) {
	case string, *SStr:
		if l < 0 || h < l || h > Len {
			fr.rtPanic(pos, fmt.Sprintf("slice bounds out of range [%d:%d] with length %d", l, h, Len))
		}
		return in.strSlice(x, l, h)
	case []Value:
		if l < 0 || h < l || m < h || m > Cap {
			fr.rtPanic(pos, fmt.Sprintf("slice bounds out of range [%d:%d:%d] with capacity %d", l, h, m, Cap))
		}
		if x == nil {
			return []Value(nil)
		}
		if h > Len {
			// re-slicing into the capacity exposes elements the engine never
			// initialised: they are zero values of the element type
			if st, ok := instr.X.Type().Underlying().(*types.Slice); ok {
				full := x[:h]
				for i := Len; i < h; i++ {
					if full[i] == nil {
						full[i] = in.zero(st.Elem())
					}
				}
			}
		}
		return x[l:h:m]
	case *Value:
		a := (*x).(Array)
		if l < 0 || h < l || m < h || m > Cap {
			fr.rtPanic(pos, fmt.Sprintf("slice bounds out of range [%d:%d:%d] with capacity %d", l, h, m, Cap))
		}
		return []Value(a)[l:h:m]
	}
	panic(fmt.Sprintf("slice: unexpected X type: %T", x))
}

// forkIntBounded forks on the value of t; values outside [0,bound] are
// represented by a single out-of-range representative (-1 or bound+1).
func (in *Interp) forkIntBounded(fr *frame, t *sym.Term, bound int, what string, pos token.Pos) int64 {
	if t.IsConst() {
		return t.Int64()
	}
	c := in.ctx
	inb := c.ULe(t, in.intC(int64(bound)))
	if !in.branchObl(inb, fr, pos) {
		return int64(bound) + 1
	}
	return in.forkInt(fr, t, what, pos)
}

// ---------- type assertions ----------

func (fr *frame) typeAssert(instr *ssa.TypeAssert, itf Iface) Value {
	in := fr.in
	var v Value
	err := ""
	if itf.T == nil {
		err = fmt.Sprintf("interface conversion: interface is nil, not %s", instr.AssertedType)
	} else if idst, ok := instr.AssertedType.Underlying().(*types.Interface); ok {
		v = itf
		if !in.implements(itf, idst) {
			err = fmt.Sprintf("interface conversion: %v is not %v: missing method", itf.T, instr.AssertedType)
		}
	} else if types.Identical(itf.T, instr.AssertedType) {
		v = itf.V
	} else {
		err = fmt.Sprintf("interface conversion: interface is %s, not %s", itf.T, instr.AssertedType)
	}
	if err != "" {
		if !instr.CommaOk {
			panic(targetPanic{msg: err, pos: fr.pos(instr.Pos()), rt: true})
		}
		return Tuple{in.zero(instr.AssertedType), in.ctx.False()}
	}
	if instr.CommaOk {
		return Tuple{v, in.ctx.True()}
	}
	return v
}

func (in *Interp) implements(itf Iface, idst *types.Interface) bool {
	if n, ok := itf.V.(*Native); ok && n != nil {
		if r, ok := in.nativeImplements(n, itf.T, idst); ok {
			return r
		}
	}
	meth, _ := types.MissingMethod(itf.T, idst, true)
	return meth == nil
}

// ---------- builtins ----------

func (in *Interp) callBuiltin(caller *frame, callpos token.Pos, fn *ssa.Builtin, args []Value) Value {
	c := in.ctx
	switch fn.Name() {
	case "append":
		if len(args) == 1 {
			return args[0]
		}
		a0 := args[0].([]Value)
		switch s := args[1].(type) {
		case string, *SStr:
			bs, ok := in.bytesOfStr(s)
			if !ok {
				bs, _ = in.bytesOfStr(in.concretizeAtoms(s, "append string to []byte"))
			}
			if len(bs) == 0 {
				return a0
			}
			in.monAppend(caller, a0, len(bs), callpos)
			for _, b := range bs {
				a0 = append(a0, b)
			}
			return a0
		case []Value:
			if len(s) == 0 {
				return a0
			}
			in.monAppend(caller, a0, len(s), callpos)
			for _, e := range s {
				a0 = append(a0, copyVal(e))
			}
			return a0
		}
		panic("append: bad args")

	case "copy":
		dst := args[0].([]Value)
		var src []Value
		switch s := args[1].(type) {
		case string, *SStr:
			bs, ok := in.bytesOfStr(s)
			if !ok {
				bs, _ = in.bytesOfStr(in.concretizeAtoms(s, "copy string to []byte"))
			}
			for _, b := range bs {
				src = append(src, b)
			}
		case []Value:
			src = s
		}
		n := len(dst)
		if len(src) < n {
			n = len(src)
		}
		if in.mon != nil {
			for i := 0; i < n; i++ {
				in.mon.onWrite(caller, &dst[i], callpos)
			}
		}
		// handle overlap like memmove
		tmp := make([]Value, n)
		for i := 0; i < n; i++ {
			tmp[i] = copyVal(src[i])
		}
		copy(dst, tmp)
		return in.intC(int64(n))

	case "close":
		in.chanClose(caller, args[0].(*Chan))
		return nil

	case "delete":
		m := args[0].(*Map)
		if m != nil {
			in.mapDelete(caller, m, args[1])
		}
		return nil

	case "clear":
		switch x := args[0].(type) {
		case *Map:
			if x != nil {
				in.mapClear(x)
			}
		case []Value:
			if len(x) > 0 {
				sig, _ := fn.Type().(*types.Signature)
				var elem types.Type
				if sig != nil && sig.Params().Len() == 1 {
					if st, ok := sig.Params().At(0).Type().Underlying().(*types.Slice); ok {
						elem = st.Elem()
					}
				}
				if elem == nil {
					panic("clear of slice: element type unknown")
				}
				for i := range x {
					if in.mon != nil {
						in.mon.onWrite(caller, &x[i], callpos)
					}
					x[i] = in.zero(elem)
				}
			}
		}
		return nil

	case "print", "println":
		return nil

	case "len":
		switch x := args[0].(type) {
		case string, *SStr:
			return in.strLen(x)
		case Array:
			return in.intC(int64(len(x)))
		case *Value:
			if x == nil {
				// len of nil *array is the array length; get it from type
				t := fn.Type().(*types.Signature).Params().At(0).Type()
				return in.intC(deref(t).Underlying().(*types.Array).Len())
			}
			return in.intC(int64(len((*x).(Array))))
		case []Value:
			return in.intC(int64(len(x)))
		case *Map:
			return in.intC(int64(x.Len()))
		case *Chan:
			if x == nil {
				return in.intC(0)
			}
			return in.intC(int64(len(x.buf)))
		}
		panic(fmt.Sprintf("len: illegal operand: %T", args[0]))

	case "cap":
		switch x := args[0].(type) {
		case Array:
			return in.intC(int64(cap(x)))
		case *Value:
			return in.intC(int64(cap((*x).(Array))))
		case []Value:
			return in.intC(int64(cap(x)))
		case *Chan:
			if x == nil {
				return in.intC(0)
			}
			return in.intC(int64(x.cap))
		}
		panic(fmt.Sprintf("cap: illegal operand: %T", args[0]))

	case "min", "max":
		t := fn.Type().(*types.Signature).Params().At(0).Type()
		r := args[0]
		for _, a := range args[1:] {
			switch x := r.(type) {
			case *sym.Term:
				y := a.(*sym.Term)
				var lt *sym.Term
				if x.Sort.K == sym.KFP {
					lt = c.FLt(y, x)
				} else if isSigned(t) {
					lt = c.SLt(y, x)
				} else {
					lt = c.ULt(y, x)
				}
				if fn.Name() == "max" {
					lt = c.Not(c.Or(lt, c.Eq(x, y)))
					if x.Sort.K == sym.KFP {
						lt = c.FLt(x, y)
					}
				}
				r = c.Ite(lt, y, x)
			default:
				panic("min/max on non-numeric: unsupported")
			}
		}
		return r

	case "panic":
		panic(targetPanic{v: args[0], msg: in.panicString(args[0]), pos: caller.pos(callpos)})

	case "recover":
		return in.doRecover(caller)

	case "ssa:wrapnilchk":
		recv := args[0]
		if in.isNilValue(recv) {
			panic(targetPanic{msg: "value method called using nil pointer", pos: caller.pos(callpos), rt: true})
		}
		return recv

	case "ssa:deferstack":
		return &caller.defers

	// unsafe builtins used by the standard library
	case "String": // unsafe.String(ptr *byte, len)
		p := args[0].(*Value)
		n := int(in.concreteInt(args[1], "unsafe.String len"))
		if n == 0 || p == nil {
			return ""
		}
		sl, ok := in.sliceFromElemPtr(p, n)
		if !ok {
			in.unsupported("unsafe.String of unknown pointer in " + caller.fn.String())
		}
		bs := make([]*sym.Term, n)
		for i := range bs {
			bs[i] = sl[i].(*sym.Term)
		}
		return in.strFromBytes(bs)
	case "SliceData":
		s := args[0].([]Value)
		if cap(s) == 0 {
			return (*Value)(nil)
		}
		s = s[:1]
		in.elemPtrOwner[&s[0]] = args[0].([]Value)[:cap(args[0].([]Value))]
		return &s[0]
	case "StringData":
		in.unsupported("unsafe.StringData")
	case "Slice":
		p := args[0].(*Value)
		n := int(in.concreteInt(args[1], "unsafe.Slice len"))
		if p == nil {
			return []Value(nil)
		}
		sl, ok := in.sliceFromElemPtr(p, n)
		if !ok {
			in.unsupported("unsafe.Slice of unknown pointer")
		}
		return sl[:n:n]
	}
	panic("unknown built-in: " + fn.Name())
}

func (in *Interp) sliceFromElemPtr(p *Value, n int) ([]Value, bool) {
	if s, ok := in.elemPtrOwner[p]; ok && len(s) >= n {
		return s, true
	}
	return nil, false
}

// ---------- range ----------

type iter interface {
	next(fr *frame) Tuple
}

type stringIter struct {
	in *Interp
	bs []*sym.Term
	i  int
}

func (it *stringIter) next(fr *frame) Tuple {
	in := it.in
	c := in.ctx
	if it.i >= len(it.bs) {
		return Tuple{c.False(), in.intC(0), c.BVC(32, 0)}
	}
	pos := it.i
	b := it.bs[it.i]
	if !b.IsConst() {
		// ASCII assumption for symbolic bytes
		in.assumeNote(c.ULt(b, c.BVC(8, 0x80)), "symbolic string bytes are ASCII when ranged over")
		it.i++
		return Tuple{c.True(), in.intC(int64(pos)), c.ZExt(b, 32)}
	}
	// decode concrete prefix
	var buf []byte
	for j := it.i; j < len(it.bs) && j < it.i+4 && it.bs[j].IsConst(); j++ {
		buf = append(buf, byte(it.bs[j].C))
	}
	r, sz := utf8.DecodeRune(buf)
	it.i += sz
	return Tuple{c.True(), in.intC(int64(pos)), c.BVC(32, uint64(r))}
}

func (in *Interp) rangeIter(fr *frame, x Value, t types.Type) iter {
	switch x := x.(type) {
	case *Map:
		return in.newMapIter(fr, x)
	case string, *SStr:
		bs, ok := in.bytesOfStr(x)
		if !ok {
			bs, _ = in.bytesOfStr(in.concretizeAtoms(x, "range over formatted number"))
		}
		return &stringIter{in: in, bs: bs}
	}
	panic(fmt.Sprintf("cannot range over %T", x))
}

// ---------- helpers ----------

// concreteInt returns the value of a constant term, concretizing if needed.
func (in *Interp) concreteInt(v Value, why string) int64 {
	t := v.(*sym.Term)
	if !t.IsConst() {
		t = in.concretize(t, why)
	}
	return t.Int64()
}

func (in *Interp) concreteString(v Value, why string) string {
	switch s := v.(type) {
	case string:
		return s
	case *SStr:
		v = in.concretizeAtoms(s, why)
		bs, _ := in.bytesOfStr(v)
		out := make([]byte, len(bs))
		for i, b := range bs {
			if !b.IsConst() {
				b = in.concretize(b, why)
			}
			out[i] = byte(b.C)
		}
		return string(out)
	}
	panic(fmt.Sprintf("concreteString: %T", v))
}

// exactScaledInt rewrites int64(float64(x)*2^k) (x a 64-bit signed integer
// term) into integer arithmetic when the path condition bounds |x| < 2^53.
func (in *Interp) exactScaledInt(t *sym.Term, d *types.Basic) *sym.Term {
	c := in.ctx
	if in.width(d) != 64 || d.Info()&types.IsUnsigned != 0 {
		return nil
	}
	neg := false
	if t.Op == sym.OpFNeg {
		neg = true
		t = t.Args[0]
	}
	rnd := false
	if t.Op == sym.OpFRnd && t.P0 == 0 {
		rnd = true
		t = t.Args[0]
	}
	k := 0
	base := t
	if t.Op == sym.OpFMul && t.Args[1].IsConst() {
		f := t.Args[1].Float()
		fr, e := math.Frexp(f)
		if fr != 0.5 {
			return nil
		}
		k = e - 1
		base = t.Args[0]
	}
	if base.Op != sym.OpSToF || base.Args[0].Sort.W != 64 || k > 9 || k < -62 {
		return nil
	}
	x := base.Args[0]
	lim := c.BVC(64, 1<<53)
	inRange := c.And(c.SLt(x, lim), c.SLt(c.Neg(lim), x))
	if !in.mustBeFalse(c.Not(inRange)) {
		return nil
	}
	var r *sym.Term
	switch {
	case k == 0:
		r = x
	case k > 0:
		r = c.Mul(x, c.BVC(64, uint64(1)<<uint(k)))
	case rnd:
		// math.Round: half away from zero
		sh := c.BVC(64, uint64(-k))
		h := c.BVC(64, uint64(1)<<uint(-k-1))
		pos := c.LShr(c.Add(x, h), sh)
		ng := c.Neg(c.LShr(c.Add(c.Neg(x), h), sh))
		r = c.Ite(c.SLt(x, c.BVC(64, 0)), ng, pos)
	default:
		r = c.SDiv(x, c.BVC(64, uint64(1)<<uint(-k))) // Go's conversion truncates toward zero like SDiv
	}
	if neg {
		r = c.Neg(r)
	}
	return r
}

// scaledInt recognises float64(x)*2^k (k >= 0) for a 64-bit signed x.
func scaledInt(t *sym.Term) (x *sym.Term, k int, ok bool) {
	if t.Op == sym.OpSToF && t.Args[0].Sort.W == 64 && t.Sort == sym.F64 {
		return t.Args[0], 0, true
	}
	if t.Op == sym.OpFMul && t.Args[1].IsConst() && t.Args[0].Op == sym.OpSToF && t.Args[0].Args[0].Sort.W == 64 {
		fr, e := math.Frexp(t.Args[1].Float())
		if fr == 0.5 && e-1 >= 0 && e-1 <= 20 {
			return t.Args[0].Args[0], e - 1, true
		}
	}
	return nil, 0, false
}

// intCompare turns a comparison of two int-derived doubles into the integer
// comparison when the path condition bounds both integers by 2^40 (the
// conversions and the scaling by 2^k <= 2^20 are then exact).
func (in *Interp) intCompare(op token.Token, a, b *sym.Term) *sym.Term {
	switch op {
	case token.LSS, token.LEQ, token.GTR, token.GEQ, token.EQL:
	default:
		return nil
	}
	if a.IsConst() || b.IsConst() {
		return nil // constants are handled by the threshold rewriting
	}
	x, ka, ok1 := scaledInt(a)
	y, kb, ok2 := scaledInt(b)
	if !ok1 || !ok2 {
		return nil
	}
	c := in.ctx
	lim := c.BVC(64, 1<<40)
	small := func(v *sym.Term) *sym.Term { return c.And(c.SLt(v, lim), c.SLt(c.Neg(lim), v)) }
	if !in.mustBeFalse(c.Not(c.And(small(x), small(y)))) {
		return nil
	}
	xs := c.Mul(x, c.BVC(64, uint64(1)<<uint(ka)))
	ys := c.Mul(y, c.BVC(64, uint64(1)<<uint(kb)))
	switch op {
	case token.EQL:
		return c.Eq(xs, ys)
	case token.LSS:
		return c.SLt(xs, ys)
	case token.LEQ:
		return c.SLe(xs, ys)
	case token.GTR:
		return c.SLt(ys, xs)
	}
	return c.SLe(ys, xs)
}
