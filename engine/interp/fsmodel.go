package interp

import (
	"fmt"
	"io/fs"
	"os"
	"path/filepath"
	"sort"
	"strings"
	"syscall"
	"time"

	"gosymx/sym"
)

// In-engine file system: the os functions pprof's settings and temp-file code
// use run against it, broken into micro-steps the way the kernel exposes them
// (WriteFile = open+truncate, then the data in two chunks; exclusive create
// and rename are atomic). Every micro-step is a scheduler switch point, may
// be the crash point, and (when enabled) a write step may fail with ENOSPC.

type fsFile struct {
	data []byte
}

type fsModel struct {
	files    map[string]*fsFile
	dirs     map[string]bool
	steps    int
	crashAt  int
	failures bool
	coarse   bool
	log      []string
}

type fsHandle struct {
	name   string
	closed bool
	off    int
	app    bool
}

// fsInfo is the fs.FileInfo of a file or directory of the model.
type fsInfo struct {
	name string
	size int64
	dir  bool
}

func (i fsInfo) Name() string { return filepath.Base(i.name) }
func (i fsInfo) Size() int64  { return i.size }
func (i fsInfo) Mode() os.FileMode {
	if i.dir {
		return os.ModeDir | 0o755
	}
	return 0o644
}
func (i fsInfo) ModTime() time.Time { return time.Time{} }
func (i fsInfo) IsDir() bool        { return i.dir }
func (i fsInfo) Sys() interface{}   { return nil }

type fsCrash struct{}

func (in *Interp) ensureFS() *fsModel {
	if in.fs == nil {
		in.fs = &fsModel{files: map[string]*fsFile{}, dirs: map[string]bool{"/": true, "/cfg": true, "/tmp": true}, crashAt: -1}
	}
	return in.fs
}

// step is one observable file-system action.
func (in *Interp) fsStep(fr *frame, what string) {
	f := in.ensureFS()
	in.schedPoint(fr, "fs:"+what)
	if f.crashAt >= 0 && f.steps == f.crashAt {
		f.crashAt = -1
		f.log = append(f.log, "CRASH before "+what)
		panic(targetPanic{v: Iface{T: in.nativeObjT, V: &Native{V: reflectValueOf(fsCrash{})}}, msg: "simulated crash before " + what})
	}
	f.steps++
	f.log = append(f.log, what)
}

func pathErr(op, path string, e syscall.Errno) error {
	return &fs.PathError{Op: op, Path: path, Err: e}
}

func (in *Interp) bytesConcrete(v Value, why string) []byte {
	xs := v.([]Value)
	out := make([]byte, len(xs))
	for i, x := range xs {
		out[i] = byte(in.needConst(x, why).C)
	}
	return out
}

func (in *Interp) bytesValue(b []byte) []Value {
	out := make([]Value, len(b))
	for i, c := range b {
		out[i] = in.byteC(c)
	}
	return out
}

func parentDir(p string) string {
	i := strings.LastIndexByte(p, '/')
	if i <= 0 {
		return "/"
	}
	return p[:i]
}

func init() {
	// HTTP transport is outside every claim: an error reply is a no-op on the writer.
	reg("net/http.Error", func(fr *frame, a []Value) Value { fr.in.note("stub: http.Error reply not rendered"); return nil })
	reg("os.UserConfigDir", func(fr *frame, a []Value) Value { return Tuple{"/cfg", Iface{}} })
	reg("os.TempDir", func(fr *frame, a []Value) Value { return "/tmp" })
	stat := func(fr *frame, a []Value) Value {
		in := fr.in
		name := in.concreteString(a[0], "file name")
		in.fsStep(fr, "stat "+name)
		if f := in.fs.files[name]; f != nil {
			return Tuple{Iface{T: in.nativeObjT, V: &Native{V: reflectValueOf(fsInfo{name: name, size: int64(len(f.data))})}}, Iface{}}
		}
		if in.fs.dirs[name] {
			return Tuple{Iface{T: in.nativeObjT, V: &Native{V: reflectValueOf(fsInfo{name: name, dir: true})}}, Iface{}}
		}
		return Tuple{Iface{}, in.nativeErr(pathErr("stat", name, syscall.ENOENT))}
	}
	reg("os.Stat", stat)
	reg("os.Lstat", stat)
	reg("os.ReadFile", func(fr *frame, a []Value) Value {
		in := fr.in
		name := in.concreteString(a[0], "file name")
		in.fsStep(fr, "read "+name)
		f := in.fs.files[name]
		if f == nil {
			return Tuple{[]Value(nil), in.nativeErr(pathErr("open", name, syscall.ENOENT))}
		}
		if in.fs.failures && in.choose("eio", 2) == 1 {
			// a transient read failure (EIO, EMFILE, ...): the file is there but cannot be read now
			return Tuple{[]Value(nil), in.nativeErr(pathErr("read", name, syscall.EIO))}
		}
		return Tuple{in.bytesValue(f.data), Iface{}}
	})
	reg("os.MkdirAll", func(fr *frame, a []Value) Value {
		in := fr.in
		name := in.concreteString(a[0], "dir name")
		in.fsStep(fr, "mkdirall "+name)
		for p := name; p != "/" && p != ""; p = parentDir(p) {
			in.fs.dirs[p] = true
		}
		return Iface{}
	})
	reg("os.WriteFile", func(fr *frame, a []Value) Value {
		in := fr.in
		name := in.concreteString(a[0], "file name")
		data := in.bytesConcrete(a[1], "file content")
		in.fsStep(fr, "open+truncate "+name)
		if !in.fs.dirs[parentDir(name)] {
			return in.nativeErr(pathErr("open", name, syscall.ENOENT))
		}
		f := &fsFile{}
		in.fs.files[name] = f
		half := len(data) / 2
		chunks := [][]byte{data[:half], data[half:]}
		if in.fs.coarse {
			chunks = [][]byte{data}
		}
		for i, chunk := range chunks {
			in.fsStep(fr, fmt.Sprintf("write chunk %d of %s", i+1, name))
			if in.fs.failures && in.choose("enospc", 2) == 1 {
				return in.nativeErr(pathErr("write", name, syscall.ENOSPC))
			}
			f.data = append(f.data, chunk...)
		}
		return Iface{}
	})
	reg("os.OpenFile", func(fr *frame, a []Value) Value {
		in := fr.in
		name := in.concreteString(a[0], "file name")
		flag := int(in.concreteInt(a[1], "open flag"))
		in.fsStep(fr, "open "+name)
		f := in.fs.files[name]
		if flag&syscall.O_CREAT != 0 && flag&syscall.O_EXCL != 0 && f != nil {
			return Tuple{(*Native)(nil), in.nativeErr(pathErr("open", name, syscall.EEXIST))}
		}
		if f == nil {
			if flag&syscall.O_CREAT == 0 {
				return Tuple{(*Native)(nil), in.nativeErr(pathErr("open", name, syscall.ENOENT))}
			}
			if !in.fs.dirs[parentDir(name)] {
				return Tuple{(*Native)(nil), in.nativeErr(pathErr("open", name, syscall.ENOENT))}
			}
			f = &fsFile{}
			in.fs.files[name] = f
		}
		if flag&syscall.O_TRUNC != 0 {
			f.data = nil
		}
		return Tuple{&Native{V: reflectValueOf(&fsHandle{name: name, app: flag&syscall.O_APPEND != 0})}, Iface{}}
	})
	handle := func(fr *frame, v Value) *fsHandle {
		n, ok := v.(*Native)
		if !ok || n == nil {
			fr.rtPanic(0, "invalid memory address or nil pointer dereference (nil *os.File)")
		}
		h, ok := n.V.Interface().(*fsHandle)
		if !ok {
			fr.in.unsupported("operation on a host *os.File")
		}
		return h
	}
	write := func(fr *frame, a []Value) Value {
		in := fr.in
		h := handle(fr, a[0])
		var data []byte
		switch x := a[1].(type) {
		case []Value:
			data = in.bytesConcrete(x, "file content")
		default:
			data = []byte(in.concreteString(x, "file content"))
		}
		in.fsStep(fr, "write "+h.name)
		if f := in.fs.files[h.name]; f != nil {
			// a write lands at the handle's offset (end of file with O_APPEND) and
			// overwrites what is there: opening without O_TRUNC keeps the old tail
			if h.app {
				h.off = len(f.data)
			}
			for len(f.data) < h.off {
				f.data = append(f.data, 0)
			}
			n := copy(f.data[h.off:], data)
			f.data = append(f.data, data[n:]...)
			h.off += len(data)
		}
		return Tuple{in.intC(int64(len(data))), Iface{}}
	}
	reg("(*os.File).Write", write)
	reg("(*os.File).WriteString", write)
	reg("(*os.File).Sync", func(fr *frame, a []Value) Value {
		h := handle(fr, a[0])
		fr.in.fsStep(fr, "sync "+h.name)
		return Iface{}
	})
	reg("(*os.File).Close", func(fr *frame, a []Value) Value { handle(fr, a[0]).closed = true; return Iface{} })
	reg("(*os.File).Name", func(fr *frame, a []Value) Value { return handle(fr, a[0]).name })
	reg("os.Remove", func(fr *frame, a []Value) Value {
		in := fr.in
		name := in.concreteString(a[0], "file name")
		in.fsStep(fr, "remove "+name)
		if in.fs.files[name] == nil {
			return in.nativeErr(pathErr("remove", name, syscall.ENOENT))
		}
		delete(in.fs.files, name)
		return Iface{}
	})
	reg("os.Rename", func(fr *frame, a []Value) Value {
		in := fr.in
		from, to := in.concreteString(a[0], "file name"), in.concreteString(a[1], "file name")
		in.fsStep(fr, "rename "+from+" -> "+to)
		f := in.fs.files[from]
		if f == nil {
			return in.nativeErr(pathErr("rename", from, syscall.ENOENT))
		}
		in.fs.files[to] = f
		delete(in.fs.files, from)
		return Iface{}
	})

	// ---- harness side ----
	harnessAPI["vFSPath"] = func(fr *frame, a []Value) Value {
		fr.in.ensureFS()
		return "/cfg/" + fr.in.concreteString(a[0], "vFSPath")
	}
	harnessAPI["vFSPut"] = func(fr *frame, a []Value) Value {
		in := fr.in
		f := in.ensureFS()
		name := in.concreteString(a[0], "vFSPut name")
		f.files[name] = &fsFile{data: []byte(in.concreteString(a[1], "vFSPut content"))}
		for p := parentDir(name); p != "/" && p != ""; p = parentDir(p) {
			f.dirs[p] = true
		}
		return nil
	}
	harnessAPI["vFSGet"] = func(fr *frame, a []Value) Value {
		in := fr.in
		f := in.ensureFS()
		x := f.files[in.concreteString(a[0], "vFSGet name")]
		if x == nil {
			return Tuple{"", in.ctx.False()}
		}
		return Tuple{string(x.data), in.ctx.True()}
	}
	harnessAPI["vFSList"] = func(fr *frame, a []Value) Value {
		f := fr.in.ensureFS()
		var names []string
		for n := range f.files {
			names = append(names, n)
		}
		sort.Strings(names)
		out := make([]Value, len(names))
		for i, n := range names {
			out[i] = n
		}
		return out
	}
	harnessAPI["vFSReset"] = func(fr *frame, a []Value) Value { fr.in.fs = nil; fr.in.ensureFS(); return nil }
	harnessAPI["vFSSteps"] = func(fr *frame, a []Value) Value {
		return fr.in.intC(int64(fr.in.ensureFS().steps))
	}
	harnessAPI["vFSCrashAt"] = func(fr *frame, a []Value) Value {
		in := fr.in
		f := in.ensureFS()
		k := int(in.concreteInt(a[0], "vFSCrashAt"))
		if k < 0 {
			f.crashAt = -1
		} else {
			f.crashAt = f.steps + k
		}
		return nil
	}
	harnessAPI["vFSCoarse"] = func(fr *frame, a []Value) Value {
		fr.in.ensureFS().coarse = tm(a[0]).IsTrue()
		return nil
	}
	harnessAPI["vFSFailures"] = func(fr *frame, a []Value) Value {
		fr.in.ensureFS().failures = tm(a[0]).IsTrue()
		return nil
	}
	harnessAPI["vIsCrash"] = func(fr *frame, a []Value) Value {
		in := fr.in
		i, ok := a[0].(Iface)
		if !ok || i.T == nil {
			return in.ctx.False()
		}
		if n, ok := i.V.(*Native); ok && n != nil {
			if _, isC := n.V.Interface().(fsCrash); isC {
				return in.ctx.True()
			}
		}
		return in.ctx.False()
	}
}

var _ = sym.Bool
