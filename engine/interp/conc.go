package interp

import (
	"sync"
	"fmt"
	"go/token"
	"go/types"

	"golang.org/x/tools/go/ssa"
)

// Goroutines of the interpreted program run as host goroutines that pass a
// baton: exactly one runs at a time. They switch only at switch points (go,
// lock/unlock, WaitGroup, Once, channel operations, vYield and environment
// stubs); the goroutine that continues is an enumerated choice, so one
// exploration covers every interleaving of switch points. Every memory access
// is stamped with a vector clock; two conflicting accesses that are not
// ordered by happens-before are a data race (reported as a violation), and in
// the absence of a reported race the switch-point interleavings represent all
// interleavings (data-race-free programs are sequentially consistent).

type vclock map[int]int

func (v vclock) copy() vclock {
	n := make(vclock, len(v))
	for k, x := range v {
		n[k] = x
	}
	return n
}

func (v vclock) join(o vclock) {
	for k, x := range o {
		if x > v[k] {
			v[k] = x
		}
	}
}

type goroutine struct {
	id      int
	resume  chan struct{}
	done    bool
	blocked func() bool // non-nil while blocked: ready predicate
	what    string
	vc      vclock
	depth   int
	frame   *frame
}

type scheduler struct {
	wg      sync.WaitGroup
	in      *Interp
	gs      []*goroutine
	cur     *goroutine
	abort   interface{} // pathAbort / targetPanic raised by a non-main goroutine
	killed  bool
	nextID  int
	spawned int
}

type killedG struct{}

// SchedEvent is one hand-off of the baton on a path: goroutine From arrived
// at a switch point (Kind point/block/exit/drain, Site = position of the
// call), and goroutine Next runs the following segment. The sequence of
// events is what the forced-schedule native replay re-enacts.
type SchedEvent struct {
	From int    `json:"from"`
	Kind string `json:"kind"`
	Site string `json:"site"`
	Next int    `json:"next"`
}

func (in *Interp) ensureSched() *scheduler {
	if in.sched == nil {
		main := &goroutine{id: 0, resume: make(chan struct{}, 1), vc: vclock{0: 1}}
		in.sched = &scheduler{in: in, gs: []*goroutine{main}, cur: main, nextID: 1}
		in.curG = main
	}
	return in.sched
}

// spawn implements the go statement.
func (in *Interp) spawn(fr *frame, instr *ssa.Go, fn Value, args []Value) {
	s := in.ensureSched()
	parent := s.cur
	g := &goroutine{id: s.nextID, resume: make(chan struct{}, 1), vc: parent.vc.copy()}
	s.nextID++
	s.spawned++
	g.vc[g.id] = 1
	parent.vc[parent.id]++
	s.gs = append(s.gs, g)
	s.wg.Add(1)
	go func() {
		defer s.wg.Done()
		<-g.resume
		defer func() {
			r := recover()
			if _, k := r.(killedG); k {
				return
			}
			if r != nil {
				if s.abort == nil {
					s.abort = r
				}
			}
			g.done = true
			s.handoff(nil)
		}()
		if s.killed {
			panic(killedG{})
		}
		in.curG = g
		in.depth = 0
		in.curFrame = nil
		in.call(nil, instr.Pos(), fn, args)
	}()
	// The spawner keeps the baton: the new goroutine becomes eligible at the
	// spawner's next switch point (the two segments are concurrent; if they do
	// not race their order is immaterial, and a race is reported by the monitor).
}

// runnable lists the goroutines that can continue.
func (s *scheduler) runnable() []*goroutine {
	var out []*goroutine
	for _, g := range s.gs {
		if g.done {
			continue
		}
		if g.blocked != nil && !g.blocked() {
			continue
		}
		out = append(out, g)
	}
	return out
}

// handoff transfers control to another goroutine (self == nil: the caller is finished).
func (s *scheduler) handoff(self *goroutine) {
	in := s.in
	if s.abort != nil || s.killed {
		// wake main so that it can abort the path
		main := s.gs[0]
		if self == main {
			return
		}
		s.cur = main
		in.curG = main
		main.resume <- struct{}{}
		if self != nil {
			<-self.resume
			if s.killed {
				panic(killedG{})
			}
		}
		return
	}
	cands := s.runnable()
	if len(cands) == 0 {
		// everybody is blocked or done
		alive := false
		for _, g := range s.gs {
			if !g.done {
				alive = true
			}
		}
		if alive {
			s.abort = pathAbort{kind: "deadlock", msg: s.describeBlocked()}
			main := s.gs[0]
			if self != main {
				s.cur = main
				in.curG = main
				main.resume <- struct{}{}
				if self != nil {
					<-self.resume
					if s.killed {
						panic(killedG{})
					}
				}
			}
			return
		}
		// all done: only possible when main finished too
		return
	}
	next := cands[0]
	if len(cands) > 1 {
		switch in.schedMode {
		case "first":
		case "last":
			next = cands[len(cands)-1]
		default:
			// the choice must be made by the goroutine that holds the baton
			next = cands[in.choose("sched", len(cands))]
		}
	}
	from := -1
	if s.cur != nil {
		from = s.cur.id
	}
	kind := in.handoffKind
	if self == nil {
		kind = "exit"
	}
	if kind == "" {
		kind = "point"
	}
	site := ""
	if in.lastCallPos.IsValid() {
		site = in.prog.Fset.Position(in.lastCallPos).String()
	}
	in.schedLog = append(in.schedLog, SchedEvent{From: from, Kind: kind, Site: site, Next: next.id})
	in.handoffKind = ""
	if next == self {
		return
	}
	if self != nil {
		self.depth = in.depth
		self.frame = in.curFrame
	}
	s.cur = next
	in.curG = next
	in.depth = next.depth
	in.curFrame = next.frame
	next.resume <- struct{}{}
	if self != nil {
		<-self.resume
		if s.killed {
			panic(killedG{})
		}
		in.curG = self
		s.cur = self
		in.depth = self.depth
		in.curFrame = self.frame
		if s.abort != nil && self == s.gs[0] {
			a := s.abort
			s.abort = nil
			s.kill()
			panic(a)
		}
	}
}

func (s *scheduler) describeBlocked() string {
	msg := "all goroutines are blocked:"
	for _, g := range s.gs {
		if !g.done && g.blocked != nil {
			msg += fmt.Sprintf(" g%d on %s;", g.id, g.what)
		}
	}
	return msg
}

// kill releases every parked goroutine so that it exits.
func (s *scheduler) kill() {
	if s.killed {
		return
	}
	s.killed = true
	for _, g := range s.gs[1:] {
		if !g.done {
			select {
			case g.resume <- struct{}{}:
			default:
			}
		}
	}
	// wait until every parked goroutine has unwound: they share the interpreter state
	s.wg.Wait()
}

func (s *scheduler) yield(in *Interp, fr *frame, what string) {
	if s == nil || len(s.gs) < 2 {
		return
	}
	s.handoff(s.cur)
}

func (s *scheduler) block(in *Interp, fr *frame, what string, ready func() bool) {
	g := s.cur
	g.blocked = ready
	g.what = what
	in.handoffKind = "block"
	s.handoff(g)
	g.blocked = nil
}

func (s *scheduler) acquire(fr *frame, o *syncObj) {
	if o.vc != nil {
		s.cur.vc.join(o.vc)
	}
}

func (s *scheduler) release(fr *frame, o *syncObj) {
	if o.vc == nil {
		o.vc = vclock{}
	}
	o.vc.join(s.cur.vc)
	s.cur.vc[s.cur.id]++
}

// drain runs the remaining goroutines after the entry function returned.
func (s *scheduler) drain(in *Interp) {
	main := s.gs[0]
	for {
		alive := false
		for _, g := range s.gs[1:] {
			if !g.done {
				alive = true
			}
		}
		if !alive {
			break
		}
		main.blocked = func() bool {
			for _, g := range s.gs[1:] {
				if !g.done {
					return false
				}
			}
			return true
		}
		main.what = "end of harness"
		in.handoffKind = "drain"
		s.handoff(main)
		main.blocked = nil
	}
	if s.abort != nil {
		a := s.abort
		s.abort = nil
		s.kill()
		panic(a)
	}
}

// ---- scheduler hooks used by the sync models ----

func (in *Interp) schedPoint(fr *frame, what string) {
	if in.sched != nil {
		in.sched.yield(in, fr, what)
	}
}

func (in *Interp) blockOn(fr *frame, what string, ready func() bool) {
	if in.sched != nil && len(in.sched.gs) > 1 {
		in.sched.block(in, fr, what, ready)
		return
	}
	in.abort("deadlock", what+" would block forever (no other goroutine)")
}

func (in *Interp) hbAcquire(fr *frame, o *syncObj) {
	if in.sched != nil {
		in.sched.acquire(fr, o)
	}
}

func (in *Interp) hbRelease(fr *frame, o *syncObj) {
	if in.sched != nil {
		in.sched.release(fr, o)
	}
}

// ---- channels ----

func (in *Interp) chanSend(fr *frame, ch *Chan, v Value) {
	if ch == nil {
		in.blockOn(fr, "send on nil channel", func() bool { return false })
	}
	in.schedPoint(fr, "chan send")
	if ch.closed {
		panic(targetPanic{msg: "send on closed channel", rt: true})
	}
	if ch.cap == 0 {
		// rendezvous: deposit and wait until taken
		for len(ch.buf) > 0 {
			in.blockOn(fr, "chan send", func() bool { return len(ch.buf) == 0 || ch.closed })
		}
		ch.buf = append(ch.buf, copyVal(v))
		ch.msgVC = append(ch.msgVC, in.curVC())
		for len(ch.buf) > 0 && !ch.closed {
			in.blockOn(fr, "chan send (waiting for receiver)", func() bool { return len(ch.buf) == 0 || ch.closed })
		}
		return
	}
	for len(ch.buf) >= ch.cap {
		in.blockOn(fr, "chan send (buffer full)", func() bool { return len(ch.buf) < ch.cap || ch.closed })
		if ch.closed {
			panic(targetPanic{msg: "send on closed channel", rt: true})
		}
	}
	ch.buf = append(ch.buf, copyVal(v))
	ch.msgVC = append(ch.msgVC, in.curVC())
}

func (in *Interp) curVC() vclock {
	if in.sched == nil {
		return nil
	}
	g := in.sched.cur
	vc := g.vc.copy()
	g.vc[g.id]++
	return vc
}

func (in *Interp) chanRecv(fr *frame, ch *Chan, elem types.Type) (Value, bool) {
	if ch == nil {
		in.blockOn(fr, "receive from nil channel", func() bool { return false })
	}
	in.schedPoint(fr, "chan recv")
	for len(ch.buf) == 0 && !ch.closed {
		in.blockOn(fr, "chan receive", func() bool { return len(ch.buf) > 0 || ch.closed })
	}
	if len(ch.buf) > 0 {
		v := ch.buf[0]
		ch.buf = ch.buf[1:]
		// the k-th send happens before the k-th receive completes: each
		// message carries the clock of its own send
		if len(ch.msgVC) > 0 {
			mv := ch.msgVC[0]
			ch.msgVC = ch.msgVC[1:]
			if in.sched != nil && mv != nil {
				in.sched.cur.vc.join(mv)
			}
		}
		return v, true
	}
	if in.sched != nil && ch.sendVC != nil {
		in.sched.cur.vc.join(ch.sendVC)
	}
	return in.zero(elem), false
}

func (in *Interp) chanClose(fr *frame, ch *Chan) {
	if ch == nil || ch.closed {
		panic(targetPanic{msg: "close of nil or closed channel", rt: true})
	}
	ch.closed = true
	if in.sched != nil {
		ch.sendVC = in.curVC()
	}
	in.schedPoint(fr, "chan close")
}

func (in *Interp) doSelect(fr *frame, instr *ssa.Select) Value {
	// ready cases are chosen among by an enumerated choice
	for {
		var ready []int
		for i, st := range instr.States {
			ch, _ := fr.get(st.Chan).(*Chan)
			if ch == nil {
				continue
			}
			if st.Dir == types.RecvOnly {
				if len(ch.buf) > 0 || ch.closed {
					ready = append(ready, i)
				}
			} else if ch.closed || len(ch.buf) < ch.cap {
				ready = append(ready, i)
			}
		}
		if len(ready) == 0 {
			if !instr.Blocking {
				r := Tuple{in.intC(-1), in.ctx.False()}
				for _, st := range instr.States {
					if st.Dir == types.RecvOnly {
						r = append(r, in.zero(st.Chan.Type().Underlying().(*types.Chan).Elem()))
					}
				}
				return r
			}
			in.blockOn(fr, "select", func() bool {
				for _, st := range instr.States {
					ch, _ := fr.get(st.Chan).(*Chan)
					if ch == nil {
						continue
					}
					if st.Dir == types.RecvOnly && (len(ch.buf) > 0 || ch.closed) {
						return true
					}
					if st.Dir != types.RecvOnly && (ch.closed || len(ch.buf) < ch.cap) {
						return true
					}
				}
				return false
			})
			continue
		}
		k := ready[0]
		if len(ready) > 1 {
			k = ready[in.choose("select", len(ready))]
		}
		st := instr.States[k]
		ch := fr.get(st.Chan).(*Chan)
		r := Tuple{in.intC(int64(k)), in.ctx.False()}
		var recvd Value
		if st.Dir == types.RecvOnly {
			v, ok := in.chanRecv(fr, ch, st.Chan.Type().Underlying().(*types.Chan).Elem())
			recvd = v
			r[1] = in.ctx.BoolC(ok)
		} else {
			in.chanSend(fr, ch, fr.get(st.Send))
		}
		for i, s2 := range instr.States {
			if s2.Dir == types.RecvOnly {
				if i == k {
					r = append(r, recvd)
				} else {
					r = append(r, in.zero(s2.Chan.Type().Underlying().(*types.Chan).Elem()))
				}
			}
		}
		return r
	}
}

// ---- data race monitor ----

type access struct {
	g     int
	clock int
	pos   token.Pos
	fn    string
}

type cellAccess struct {
	write *access
	reads map[int]*access
}

func (m *monitor) raceRead(in *Interp, fr *frame, addr *Value, pos token.Pos) {
	s := in.sched
	if s == nil || s.spawned == 0 || !m.race {
		return
	}
	g := s.cur
	ca := m.acc[addr]
	if ca == nil {
		ca = &cellAccess{reads: map[int]*access{}}
		m.acc[addr] = ca
	}
	if w := ca.write; w != nil && w.g != g.id && g.vc[w.g] < w.clock {
		m.reportRace(in, fr, "read", pos, w)
	}
	ca.reads[g.id] = &access{g: g.id, clock: g.vc[g.id], pos: pos, fn: fnName(fr)}
}

func (m *monitor) raceWrite(in *Interp, fr *frame, addr *Value, pos token.Pos) {
	s := in.sched
	if s == nil || s.spawned == 0 || !m.race {
		return
	}
	g := s.cur
	ca := m.acc[addr]
	if ca == nil {
		ca = &cellAccess{reads: map[int]*access{}}
		m.acc[addr] = ca
	}
	if w := ca.write; w != nil && w.g != g.id && g.vc[w.g] < w.clock {
		m.reportRace(in, fr, "write", pos, w)
	}
	for _, r := range ca.reads {
		if r.g != g.id && g.vc[r.g] < r.clock {
			m.reportRace(in, fr, "write", pos, r)
		}
	}
	ca.write = &access{g: g.id, clock: g.vc[g.id], pos: pos, fn: fnName(fr)}
	ca.reads = map[int]*access{}
}

func fnName(fr *frame) string {
	if fr == nil {
		return "?"
	}
	return fr.fn.String()
}

func (m *monitor) reportRace(in *Interp, fr *frame, kind string, pos token.Pos, other *access) {
	here := fnName(fr)
	key := here + "|" + other.fn
	if m.raced[key] {
		return
	}
	m.raced[key] = true
	a, b := here, other.fn
	if b < a {
		a, b = b, a
	}
	label := "race:" + shortFn(a) + "/" + shortFn(b)
	msg := fmt.Sprintf("data race: %s in %s at %s conflicts with an earlier access in %s at %s without happens-before", kind, here, in.prog.Fset.Position(pos), other.fn, in.prog.Fset.Position(other.pos))
	in.reportViolation("assert", label, msg, fr, in.currentModel())
}

func shortFn(s string) string {
	// strip the module path
	const pre = "github.com/google/pprof/"
	for i := 0; i+len(pre) <= len(s); i++ {
		if s[i:i+len(pre)] == pre {
			s = s[:i] + s[i+len(pre):]
			break
		}
	}
	return s
}
