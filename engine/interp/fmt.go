package interp

import (
	"fmt"
	"go/types"
	"strings"

	"gosymx/sym"
)

// lazyErr is the value of an error built by fmt.Errorf: its text is only
// rendered when inspected.
type lazyErr struct {
	format  Value
	args    []Value
	wrapped Value // Iface of the %w operand, if any
	text    Value
}

func (in *Interp) lazyErrString(le *lazyErr) Value {
	if le.text == nil {
		le.text = in.sprintf(in.concreteString(le.format, "format string"), le.args)
	}
	return le.text
}

type fmtSpec struct {
	flags string
	verb  byte
	raw   string // full "%...v"
}

// parseFormat splits a format string into literal pieces and verbs. ok=false
// for formats using explicit argument indexes or '*' widths.
func parseFormat(f string) (lits []string, specs []fmtSpec, ok bool) {
	cur := strings.Builder{}
	i := 0
	for i < len(f) {
		if f[i] != '%' {
			cur.WriteByte(f[i])
			i++
			continue
		}
		j := i + 1
		for j < len(f) && strings.IndexByte("+-# 0123456789.", f[j]) >= 0 {
			j++
		}
		if j >= len(f) {
			cur.WriteString(f[i:])
			break
		}
		if f[j] == '[' || f[j] == '*' {
			return nil, nil, false
		}
		if f[j] == '%' {
			cur.WriteByte('%')
			i = j + 1
			continue
		}
		lits = append(lits, cur.String())
		cur.Reset()
		specs = append(specs, fmtSpec{flags: f[i+1 : j], verb: f[j], raw: f[i : j+1]})
		i = j + 1
	}
	lits = append(lits, cur.String())
	return lits, specs, true
}

func (in *Interp) ifaceIsSymbolic(v Value) bool { return !isConcreteDeep(v) }

// sprintf implements fmt.Sprintf over engine values.
func (in *Interp) sprintf(format string, args []Value) Value {
	allc := true
	for _, a := range args {
		if in.ifaceIsSymbolic(a) {
			allc = false
			break
		}
	}
	lits, specs, ok := parseFormat(format)
	if allc || !ok {
		gargs := make([]interface{}, len(args))
		for i, a := range args {
			gargs[i] = in.toGo(a.(Iface), "fmt argument")
		}
		return fmt.Sprintf(format, gargs...)
	}
	var ps []SPart
	for i, sp := range specs {
		ps = append(ps, SPart{Lit: lits[i]})
		if i >= len(args) {
			ps = append(ps, SPart{Lit: "%!" + string(sp.verb) + "(MISSING)"})
			continue
		}
		ps = append(ps, in.fmtOne(sp, args[i].(Iface))...)
	}
	ps = append(ps, SPart{Lit: lits[len(specs)]})
	if len(args) > len(specs) {
		ps = append(ps, SPart{Lit: "%!(EXTRA)"})
	}
	return in.mkStr(ps)
}

func (in *Interp) fmtOne(sp fmtSpec, a Iface) []SPart {
	if !in.ifaceIsSymbolic(a) {
		return []SPart{{Lit: fmt.Sprintf(sp.raw, in.toGo(a, "fmt argument"))}}
	}
	// error / Stringer with symbolic content
	if a.T != nil && (sp.verb == 'v' || sp.verb == 's') {
		if a.T == in.lazyErrT || in.hasMethod(a.T, "Error", "string") {
			return partsOf(in.callMethod(a, "Error"))
		}
		if in.hasMethod(a.T, "String", "string") {
			return partsOf(in.callMethod(a, "String"))
		}
	}
	switch v := a.V.(type) {
	case *sym.Term:
		if v.Sort.K == sym.KBV && sp.flags == "" {
			signed := isSigned(a.T)
			switch sp.verb {
			case 'd', 'v':
				return []SPart{{A: &Atom{Kind: "int", T: v, Base: 10, Signed: signed}}}
			case 'x':
				return []SPart{{A: &Atom{Kind: "int", T: v, Base: 16, Signed: signed}}}
			case 'o':
				return []SPart{{A: &Atom{Kind: "int", T: v, Base: 8, Signed: signed}}}
			case 'b':
				return []SPart{{A: &Atom{Kind: "int", T: v, Base: 2, Signed: signed}}}
			}
		}
		if v.Sort.K == sym.KBool && (sp.verb == 'v' || sp.verb == 't') && sp.flags == "" {
			if in.branchX(v, 0, false, "fmtbool") {
				return []SPart{{Lit: "true"}}
			}
			return []SPart{{Lit: "false"}}
		}
		return []SPart{{A: &Atom{Kind: "opaque", Verb: sp.raw, Args: []*sym.Term{v}}}}
	case string, *SStr:
		if (sp.verb == 's' || sp.verb == 'v') && sp.flags == "" {
			return partsOf(v)
		}
		s := in.concreteString(v, "formatting a symbolic string with "+sp.raw)
		return []SPart{{Lit: fmt.Sprintf(sp.raw, s)}}
	}
	// aggregates with symbolic content: concretize through toGo
	return []SPart{{Lit: fmt.Sprintf(sp.raw, in.toGo(a, "fmt argument (symbolic aggregate)"))}}
}

// sprint implements fmt.Sprint / Sprintln.
func (in *Interp) sprint(args []Value, ln bool) Value {
	allc := true
	for _, a := range args {
		if in.ifaceIsSymbolic(a) {
			allc = false
		}
	}
	if allc {
		gargs := make([]interface{}, len(args))
		for i, a := range args {
			gargs[i] = in.toGo(a.(Iface), "fmt argument")
		}
		if ln {
			return fmt.Sprintln(gargs...)
		}
		return fmt.Sprint(gargs...)
	}
	var ps []SPart
	prevString := true
	for i, a := range args {
		it := a.(Iface)
		_, isStr := it.V.(string)
		if _, isS := it.V.(*SStr); isS {
			isStr = true
		}
		if i > 0 && (ln || (!isStr && !prevString)) {
			ps = append(ps, SPart{Lit: " "})
		}
		ps = append(ps, in.fmtOne(fmtSpec{verb: 'v', raw: "%v"}, it)...)
		prevString = isStr
	}
	if ln {
		ps = append(ps, SPart{Lit: "\n"})
	}
	return in.mkStr(ps)
}

// writeTo writes s to an engine io.Writer value.
func (in *Interp) writeTo(fr *frame, w Iface, s Value) Value {
	if w.T == nil {
		fr.rtPanic(0, "invalid memory address or nil pointer dereference (nil io.Writer)")
	}
	if n, ok := w.V.(*Native); ok && n != nil {
		// native writers (os.Stderr, ...): discard
		return Tuple{in.intC(0), Iface{}}
	}
	bs := in.strBytes(s, "fmt.Fprint to a writer")
	buf := make([]Value, len(bs))
	for i, b := range bs {
		buf[i] = b
	}
	return in.callMethod(w, "Write", buf)
}

func init() {
	reg("fmt.Sprintf", func(fr *frame, a []Value) Value {
		in := fr.in
		return in.sprintf(in.concreteString(a[0], "format string"), a[1].([]Value))
	})
	reg("fmt.Sprint", func(fr *frame, a []Value) Value { return fr.in.sprint(a[0].([]Value), false) })
	reg("fmt.Sprintln", func(fr *frame, a []Value) Value { return fr.in.sprint(a[0].([]Value), true) })
	reg("fmt.Errorf", func(fr *frame, a []Value) Value {
		in := fr.in
		le := &lazyErr{format: a[0], args: a[1].([]Value)}
		f := in.concreteString(a[0], "format string")
		if strings.Contains(f, "%w") {
			_, specs, ok := parseFormat(f)
			if ok {
				for i, sp := range specs {
					if sp.verb == 'w' && i < len(le.args) {
						le.wrapped = le.args[i]
					}
				}
			}
			le.format = strings.ReplaceAll(f, "%w", "%v")
		}
		return Iface{T: in.lazyErrT, V: le}
	})
	reg("fmt.Fprintf", func(fr *frame, a []Value) Value {
		in := fr.in
		s := in.sprintf(in.concreteString(a[1], "format string"), a[2].([]Value))
		return in.writeTo(fr, a[0].(Iface), s)
	})
	reg("fmt.Fprint", func(fr *frame, a []Value) Value {
		return fr.in.writeTo(fr, a[0].(Iface), fr.in.sprint(a[1].([]Value), false))
	})
	reg("fmt.Fprintln", func(fr *frame, a []Value) Value {
		return fr.in.writeTo(fr, a[0].(Iface), fr.in.sprint(a[1].([]Value), true))
	})
	discard := func(fr *frame, a []Value) Value { return Tuple{fr.in.intC(0), Iface{}} }
	reg("fmt.Printf", discard)
	reg("fmt.Println", discard)
	reg("fmt.Print", discard)
	reg("log.Printf", func(fr *frame, a []Value) Value { return nil })
	reg("log.Println", func(fr *frame, a []Value) Value { return nil })
	reg("log.Print", func(fr *frame, a []Value) Value { return nil })
}

// fake named types for engine-made dynamic types
func mkFakeErrType(name string) types.Type {
	pkg := types.NewPackage("gosymx/fake", "fake")
	tn := types.NewTypeName(0, pkg, name, nil)
	named := types.NewNamed(tn, types.NewStruct(nil, nil), nil)
	res := types.NewTuple(types.NewVar(0, pkg, "", types.Typ[types.String]))
	sig := types.NewSignatureType(types.NewVar(0, pkg, "e", named), nil, nil, nil, res, false)
	named.AddMethod(types.NewFunc(0, pkg, "Error", sig))
	return named
}

// tryErrorString renders an error/Stringer value for diagnostics.
func (in *Interp) tryErrorString(v Iface) (string, bool) {
	if v.T == in.lazyErrT {
		return in.debugString(in.lazyErrString(v.V.(*lazyErr))), true
	}
	if n, ok := v.V.(*Native); ok && n != nil {
		return fmt.Sprint(n.V.Interface()), true
	}
	if in.hasMethod(v.T, "Error", "string") {
		return in.debugString(in.callMethod(v, "Error")), true
	}
	return "", false
}
