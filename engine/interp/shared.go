package interp

import (
	"fmt"
	"go/types"
	"sort"
	"strings"
	"sync"
	"sync/atomic"
	"time"

	"gosymx/sym"

	"golang.org/x/tools/go/ssa"
)

// Shared is the state shared by the workers of one run.
type Shared struct {
	mu       sync.Mutex
	cond     *sync.Cond
	queue    [][]DecSnap
	idle     int32
	nworkers int
	done     bool
	stop     int32

	violations []*Violation
	vioKeys    map[string]bool
	samples    []*PathSample
	maxSamples int
	sampleSeen int
	Stats      *Stats
	Funcs      map[string]bool
	SolverQueries int
	SolverSat, SolverUnsat, SolverUnknown int
	SolverTime time.Duration
	Terms int
	errs  []string
	cfg   *Config
	Bounds map[string]int
	pathsDone int64
}

func (sh *Shared) wantsWork() bool {
	return atomic.LoadInt32(&sh.idle) > 0
}

func (sh *Shared) push(p []DecSnap) {
	sh.mu.Lock()
	sh.queue = append(sh.queue, p)
	sh.mu.Unlock()
	sh.cond.Signal()
}

func (sh *Shared) stopped() bool { return atomic.LoadInt32(&sh.stop) != 0 }

// pop blocks until a job is available or the run is finished.
func (sh *Shared) pop() ([]DecSnap, bool) {
	sh.mu.Lock()
	defer sh.mu.Unlock()
	for {
		if sh.done || sh.stopped() {
			return nil, false
		}
		if n := len(sh.queue); n > 0 {
			p := sh.queue[n-1]
			sh.queue = sh.queue[:n-1]
			return p, true
		}
		atomic.AddInt32(&sh.idle, 1)
		if int(atomic.LoadInt32(&sh.idle)) == sh.nworkers {
			sh.done = true
			sh.cond.Broadcast()
			return nil, false
		}
		sh.cond.Wait()
		atomic.AddInt32(&sh.idle, -1)
	}
}

func (sh *Shared) addViolation(v *Violation) {
	sh.mu.Lock()
	defer sh.mu.Unlock()
	key := v.Kind + "|" + v.Label + "|" + v.Msg
	if v.Kind == "panic" {
		key = v.Kind + "|" + PanicFingerprint(v.Msg)
	}
	if sh.vioKeys[key] {
		return
	}
	sh.vioKeys[key] = true
	sh.violations = append(sh.violations, v)
	if sh.cfg.MaxViolations > 0 && len(sh.violations) >= sh.cfg.MaxViolations {
		atomic.StoreInt32(&sh.stop, 1)
		sh.cond.Broadcast()
	}
}

// offerSample keeps a reservoir of completed paths for native cross-validation.
func (sh *Shared) offerSample(in *Interp) {
	sh.mu.Lock()
	sh.sampleSeen++
	n := sh.sampleSeen
	full := len(sh.samples) >= sh.maxSamples
	sh.mu.Unlock()
	slot := -1
	if !full {
		slot = -2
	} else {
		// deterministic reservoir: replace slot (n*2654435761 mod n) when < maxSamples
		k := int(((uint64(n) * 2654435761) >> 11) % uint64(n))
		if k < sh.maxSamples {
			slot = k
		}
	}
	if slot == -1 {
		return
	}
	m := in.currentModel()
	if m == nil {
		return
	}
	ps := &PathSample{Model: m, Choices: map[string]int{}, Outcome: "ok"}
	for k, v := range in.choices {
		ps.Choices[k] = v
	}
	ps.Inputs = append(ps.Inputs, in.inputs...)
	for _, o := range in.observed {
		ps.Observed = append(ps.Observed, in.renderObserved(o, m))
	}
	sh.mu.Lock()
	if slot == -2 {
		sh.samples = append(sh.samples, ps)
	} else if slot < len(sh.samples) {
		sh.samples[slot] = ps
	}
	sh.mu.Unlock()
}

// renderObserved renders an observed value under model m the way the native
// side renders it (decimal integers, true/false, quoted strings).
func (in *Interp) renderObserved(v Value, m sym.Model) string {
	switch v := v.(type) {
	case *sym.Term:
		x, _ := sym.Eval(v, m)
		switch v.Sort.K {
		case sym.KBool:
			if x == 1 {
				return "true"
			}
			return "false"
		case sym.KBV:
			return fmt.Sprintf("%#x", x)
		default:
			return fmt.Sprintf("f%#x", x)
		}
	case string:
		return fmt.Sprintf("%q", v)
	case *SStr:
		var sb strings.Builder
		for _, p := range v.P {
			switch {
			case p.B != nil:
				x, _ := sym.Eval(p.B, m)
				sb.WriteByte(byte(x))
			case p.A != nil:
				if p.A.Kind == "int" {
					x, _ := sym.Eval(p.A.T, m)
					sb.WriteString(renderIntAtom(p.A, x))
				} else {
					sb.WriteString("?")
				}
			default:
				sb.WriteString(p.Lit)
			}
		}
		return fmt.Sprintf("%q", sb.String())
	case Iface:
		if v.T == nil {
			return "nil"
		}
		return in.renderObserved(v.V, m)
	case []Value:
		parts := make([]string, len(v))
		for i, e := range v {
			parts[i] = in.renderObserved(e, m)
		}
		return "[" + strings.Join(parts, ",") + "]"
	}
	return fmt.Sprintf("<%T>", v)
}

// RunResult is what one exploration produced.
type RunResult struct {
	Stats      *Stats
	Violations []*Violation
	Samples    []*PathSample
	Funcs      []string
	SolverQueries int
	SolverSat, SolverUnsat, SolverUnknown int
	SolverTime time.Duration
	Wall       time.Duration
	Errors     []string
	Stopped    bool
	TimedOut   bool
	Bounds     map[string]int
}

// Program is a loaded SSA program plus the classification of its packages.
type Program struct {
	Prog     *ssa.Program
	Pkgs     map[string]*ssa.Package
	RtErr    types.Type
	Roots    []*ssa.Package
}

// Run explores entry (a niladic function) with nworkers workers.
func Run(p *Program, entry *ssa.Function, cfg *Config, nworkers int, maxSamples int) *RunResult {
	t0 := time.Now()
	sh := &Shared{nworkers: nworkers, vioKeys: map[string]bool{}, Stats: newStats(), Funcs: map[string]bool{}, maxSamples: maxSamples, cfg: cfg, Bounds: map[string]int{}}
	sh.cond = sync.NewCond(&sh.mu)
	sh.queue = append(sh.queue, nil) // root job: empty prefix
	var wg sync.WaitGroup
	timedOut := int32(0)
	stopProgress := make(chan struct{})
	if cfg.Progress != nil {
		go func() {
			tk := time.NewTicker(10 * time.Second)
			defer tk.Stop()
			for {
				select {
				case <-stopProgress:
					return
				case <-tk.C:
					sh.mu.Lock()
					q := len(sh.queue)
					nv := len(sh.violations)
					sh.mu.Unlock()
					fmt.Fprintf(cfg.Progress, "  [%.0fs] paths=%d queue=%d idle=%d violations=%d\n", time.Since(t0).Seconds(), atomic.LoadInt64(&sh.pathsDone), q, atomic.LoadInt32(&sh.idle), nv)
				}
			}
		}()
	}
	for w := 0; w < nworkers; w++ {
		wg.Add(1)
		go func(w int) {
			defer wg.Done()
			defer func() {
				if r := recover(); r != nil {
					sh.mu.Lock()
					sh.errs = append(sh.errs, fmt.Sprintf("worker %d: engine error: %v\n%s", w, r, stack()))
					sh.mu.Unlock()
					atomic.StoreInt32(&sh.stop, 1)
					sh.cond.Broadcast()
				}
			}()
			in, err := NewInterp(p, cfg, sh, w)
			if err != nil {
				panic(err)
			}
			defer in.Close()
			for {
				job, ok := sh.pop()
				if !ok {
					break
				}
				in.loadPrefix(job)
				for {
					if sh.stopped() {
						break
					}
					if !cfg.Deadline.IsZero() && time.Now().After(cfg.Deadline) {
						atomic.StoreInt32(&timedOut, 1)
						atomic.StoreInt32(&sh.stop, 1)
						sh.cond.Broadcast()
						break
					}
					in.resetPath()
					res := in.runPath(func() { in.runEntry(entry) })
					in.recordPath(res)
					atomic.AddInt64(&sh.pathsDone, 1)
					if !in.backtrack() {
						break
					}
				}
			}
			sh.mu.Lock()
			sh.Stats.merge(in.Stats)
			for f := range in.funcsSeen {
				sh.Funcs[f.String()] = true
			}
			s := in.solver
			sh.SolverQueries += s.Queries
			sh.SolverSat += s.NSat
			sh.SolverUnsat += s.NUnsat
			sh.SolverUnknown += s.NUnknown
			sh.SolverTime += s.Time
			sh.Terms += in.ctx.NumTerms()
			for k, v := range in.boundsUsed {
				sh.Bounds[k] = v
			}
			sh.mu.Unlock()
		}(w)
	}
	wg.Wait()
	close(stopProgress)
	rr := &RunResult{Bounds: sh.Bounds, Stats: sh.Stats, Violations: sh.violations, Samples: sh.samples, Wall: time.Since(t0),
		SolverQueries: sh.SolverQueries, SolverSat: sh.SolverSat, SolverUnsat: sh.SolverUnsat, SolverUnknown: sh.SolverUnknown,
		SolverTime: sh.SolverTime, Errors: sh.errs, Stopped: sh.stopped(), TimedOut: timedOut != 0}
	for f := range sh.Funcs {
		rr.Funcs = append(rr.Funcs, f)
	}
	sort.Strings(rr.Funcs)
	return rr
}

// PanicFingerprint reduces a panic message to its stable part: source file
// and kind of panic (line numbers and values move with unrelated edits).
func PanicFingerprint(msg string) string {
	first := msg
	if i := strings.IndexByte(first, '\n'); i >= 0 {
		first = first[:i]
	}
	if i := strings.LastIndex(first, " at "); i >= 0 {
		pos := first[i+4:]
		if j := strings.Index(pos, "/repo/"); j >= 0 {
			pos = pos[j+6:]
		}
		if j := strings.IndexByte(pos, ':'); j > 0 {
			pos = pos[:j]
		}
		kind := first[:i]
		if k := strings.IndexAny(kind, "[0123456789\"⟨"); k > 0 {
			kind = strings.TrimSpace(kind[:k])
		}
		return pos + ":" + strings.ReplaceAll(kind, " ", "_")
	}
	return strings.ReplaceAll(first, " ", "_")
}
