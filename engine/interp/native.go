package interp

import (
	"fmt"
	"go/token"
	"go/types"
	"reflect"
	"runtime/debug"

	"gosymx/sym"
)

func stack() string { return string(debug.Stack()) }

// NativeFunc is a host function callable from interpreted code.
type NativeFunc struct {
	Name string
	Fn   func(in *Interp, fr *frame, pos token.Pos, args []Value) Value
}

func (nf *NativeFunc) Call(in *Interp, fr *frame, pos token.Pos, args []Value) Value {
	return nf.Fn(in, fr, pos, args)
}

var (
	errorRT    = reflect.TypeOf((*error)(nil)).Elem()
	emptyIfRT  = reflect.TypeOf((*interface{})(nil)).Elem()
	valueRT    = reflect.TypeOf((*Value)(nil)).Elem()
)

// toReflect converts an engine value to a host value of type rt. All scalars
// must be concrete.
func (in *Interp) toReflect(v Value, rt reflect.Type, why string) reflect.Value {
	switch rt.Kind() {
	case reflect.Bool:
		t := in.needConst(v, why)
		return reflect.ValueOf(t.C == 1).Convert(rt)
	case reflect.Int, reflect.Int8, reflect.Int16, reflect.Int32, reflect.Int64:
		t := in.needConst(v, why)
		return reflect.ValueOf(t.Int64()).Convert(rt)
	case reflect.Uint, reflect.Uint8, reflect.Uint16, reflect.Uint32, reflect.Uint64, reflect.Uintptr:
		t := in.needConst(v, why)
		return reflect.ValueOf(t.C).Convert(rt)
	case reflect.Float32, reflect.Float64:
		t := in.needConst(v, why)
		return reflect.ValueOf(t.Float()).Convert(rt)
	case reflect.String:
		return reflect.ValueOf(in.concreteStringStrict(v, why)).Convert(rt)
	case reflect.Slice:
		xs, ok := v.([]Value)
		if !ok {
			if n, ok := v.(*Native); ok {
				return n.V
			}
			panic(fmt.Sprintf("toReflect: %T to %v", v, rt))
		}
		if xs == nil {
			return reflect.Zero(rt)
		}
		out := reflect.MakeSlice(rt, len(xs), len(xs))
		for i, e := range xs {
			out.Index(i).Set(in.toReflect(e, rt.Elem(), why))
		}
		return out
	case reflect.Interface:
		return in.toReflectIface(v, rt, why)
	case reflect.Ptr, reflect.Struct, reflect.Map, reflect.Func, reflect.Chan:
		if n, ok := v.(*Native); ok {
			if n == nil {
				return reflect.Zero(rt)
			}
			if n.V.Type().AssignableTo(rt) {
				return n.V
			}
			if n.V.Type().ConvertibleTo(rt) {
				return n.V.Convert(rt)
			}
		}
		if in.isNilValue(v) {
			return reflect.Zero(rt)
		}
		in.unsupported(fmt.Sprintf("cannot pass interpreter value %T as native %v (%s)", v, rt, why))
	}
	in.unsupported(fmt.Sprintf("toReflect: unsupported kind %v (%s)", rt, why))
	panic("unreachable")
}

func (in *Interp) needConst(v Value, why string) *sym.Term {
	t, ok := v.(*sym.Term)
	if !ok {
		panic(fmt.Sprintf("needConst: %T (%s)", v, why))
	}
	if !t.IsConst() {
		t = in.concretize(t, "native call: "+why)
	}
	return t
}

func (in *Interp) concreteStringStrict(v Value, why string) string {
	if s, ok := v.(string); ok {
		return s
	}
	return in.concreteString(v, "native call: "+why)
}

// toReflectIface converts an engine interface value to a host interface.
func (in *Interp) toReflectIface(v Value, rt reflect.Type, why string) reflect.Value {
	itf, ok := v.(Iface)
	if !ok {
		panic(fmt.Sprintf("toReflectIface: %T", v))
	}
	if itf.T == nil {
		return reflect.Zero(rt)
	}
	g := in.toGo(itf, why)
	if g == nil {
		return reflect.Zero(rt)
	}
	rv := reflect.ValueOf(g)
	if !rv.Type().AssignableTo(rt) {
		in.unsupported(fmt.Sprintf("value of dynamic type %v does not implement native %v (%s)", itf.T, rt, why))
	}
	out := reflect.New(rt).Elem()
	out.Set(rv)
	return out
}

// toGo converts an interface-boxed engine value into a host value suitable
// for fmt and friends.
func (in *Interp) toGo(itf Iface, why string) interface{} {
	if itf.T == nil {
		return nil
	}
	if n, ok := itf.V.(*Native); ok {
		if n == nil {
			return nil
		}
		return n.V.Interface()
	}
	// error / Stringer adapters for interpreted types
	if in.hasMethod(itf.T, "Error", "string") {
		return &errAdapter{in: in, v: itf}
	}
	if in.hasMethod(itf.T, "String", "string") {
		return &stringerAdapter{in: in, v: itf}
	}
	if in.hasMethod(itf.T, "Write", "") {
		return &writerAdapter{in: in, v: itf}
	}
	return in.toGoPlain(itf.V, itf.T, why)
}

func (in *Interp) toGoPlain(v Value, t types.Type, why string) interface{} {
	switch u := t.Underlying().(type) {
	case *types.Basic:
		switch x := v.(type) {
		case *sym.Term:
			x = in.needConst(x, why)
			switch u.Kind() {
			case types.Bool:
				return x.C == 1
			case types.Int:
				return int(x.Int64())
			case types.Int8:
				return int8(x.Int64())
			case types.Int16:
				return int16(x.Int64())
			case types.Int32:
				return int32(x.Int64())
			case types.Int64:
				return x.Int64()
			case types.Uint:
				return uint(x.C)
			case types.Uint8:
				return uint8(x.C)
			case types.Uint16:
				return uint16(x.C)
			case types.Uint32:
				return uint32(x.C)
			case types.Uint64:
				return x.C
			case types.Uintptr:
				return uintptr(x.C)
			case types.Float32:
				return float32(x.Float())
			case types.Float64:
				return x.Float()
			}
		case string, *SStr:
			return in.concreteStringStrict(x, why)
		}
	case *types.Slice:
		xs := v.([]Value)
		switch e := u.Elem().Underlying().(type) {
		case *types.Basic:
			switch e.Kind() {
			case types.String:
				out := make([]string, len(xs))
				for i, x := range xs {
					out[i] = in.concreteStringStrict(x, why)
				}
				return out
			case types.Uint8:
				out := make([]byte, len(xs))
				for i, x := range xs {
					out[i] = byte(in.needConst(x, why).C)
				}
				return out
			case types.Int64:
				out := make([]int64, len(xs))
				for i, x := range xs {
					out[i] = in.needConst(x, why).Int64()
				}
				return out
			case types.Int:
				out := make([]int, len(xs))
				for i, x := range xs {
					out[i] = int(in.needConst(x, why).Int64())
				}
				return out
			case types.Uint64:
				out := make([]uint64, len(xs))
				for i, x := range xs {
					out[i] = in.needConst(x, why).C
				}
				return out
			case types.Float64:
				out := make([]float64, len(xs))
				for i, x := range xs {
					out[i] = in.needConst(x, why).Float()
				}
				return out
			}
		}
		out := make([]interface{}, len(xs))
		for i, x := range xs {
			out[i] = in.toGoPlain(x, u.Elem(), why)
		}
		return out
	case *types.Pointer:
		p, _ := v.(*Value)
		if p == nil {
			return nil
		}
		// pointers print as addresses; give a stable placeholder
		return fmt.Sprintf("%p", p)
	case *types.Interface:
		return in.toGo(v.(Iface), why)
	case *types.Struct:
		s := v.(Struct)
		fields := make([]reflect.StructField, len(s))
		vals := make([]interface{}, len(s))
		for i := range s {
			vals[i] = in.toGoPlain(s[i], u.Field(i).Type(), why)
			ft := emptyIfRT
			if vals[i] != nil {
				ft = reflect.TypeOf(vals[i])
			}
			fields[i] = reflect.StructField{Name: fmt.Sprintf("F%d_%s", i, exportName(u.Field(i).Name())), Type: ft}
		}
		rv := reflect.New(reflect.StructOf(fields)).Elem()
		for i := range s {
			if vals[i] != nil {
				rv.Field(i).Set(reflect.ValueOf(vals[i]))
			}
		}
		return rv.Interface()
	case *types.Map:
		m, _ := v.(*Map)
		out := map[interface{}]interface{}{}
		if m != nil {
			for _, e := range m.entries {
				if !e.deleted {
					out[in.toGoPlain(e.key, u.Key(), why)] = in.toGoPlain(e.val, u.Elem(), why)
				}
			}
		}
		return out
	case *types.Array:
		a := v.(Array)
		out := make([]interface{}, len(a))
		for i, x := range a {
			out[i] = in.toGoPlain(x, u.Elem(), why)
		}
		return out
	case *types.Signature:
		return "func"
	}
	in.unsupported(fmt.Sprintf("toGo: cannot convert %T of type %v (%s)", v, t, why))
	return nil
}

func exportName(s string) string {
	if s == "" || s == "_" {
		return "X"
	}
	b := []byte(s)
	if b[0] >= 'a' && b[0] <= 'z' {
		b[0] -= 32
	}
	return string(b)
}

func (in *Interp) hasMethod(t types.Type, name, result string) bool {
	ms := in.prog.MethodSets.MethodSet(t)
	for i := 0; i < ms.Len(); i++ {
		m := ms.At(i)
		if m.Obj().Name() != name {
			continue
		}
		sig := m.Type().(*types.Signature)
		if result == "" {
			return true
		}
		if sig.Params().Len() == 0 && sig.Results().Len() == 1 && sig.Results().At(0).Type().String() == result {
			return true
		}
	}
	return false
}

// callMethod calls the named method of an interface-boxed value.
func (in *Interp) callMethod(itf Iface, name string, args ...Value) Value {
	if itf.T == in.lazyErrT {
		if name == "Error" {
			return in.lazyErrString(itf.V.(*lazyErr))
		}
	}
	ms := in.prog.MethodSets.MethodSet(itf.T)
	for i := 0; i < ms.Len(); i++ {
		if ms.At(i).Obj().Name() == name {
			fn := in.prog.MethodValue(ms.At(i))
			if fn == nil {
				break
			}
			return in.call(in.topFrame(), token.NoPos, fn, append([]Value{itf.V}, args...))
		}
	}
	panic(fmt.Sprintf("callMethod: %v has no method %s", itf.T, name))
}

func (in *Interp) topFrame() *frame { return in.curFrame }

type errAdapter struct {
	in *Interp
	v  Iface
}

func (e *errAdapter) Error() string {
	return e.in.concreteString(e.in.callMethod(e.v, "Error"), "error text")
}

type stringerAdapter struct {
	in *Interp
	v  Iface
}

func (s *stringerAdapter) String() string {
	return s.in.concreteString(s.in.callMethod(s.v, "String"), "String() text")
}

type writerAdapter struct {
	in *Interp
	v  Iface
}

func (w *writerAdapter) Write(p []byte) (int, error) {
	bs := make([]Value, len(p))
	for i, b := range p {
		bs[i] = w.in.byteC(b)
	}
	r := w.in.callMethod(w.v, "Write", bs).(Tuple)
	n := int(w.in.concreteInt(r[0], "Write result"))
	if e := r[1].(Iface); e.T != nil {
		return n, &errAdapter{in: w.in, v: e}
	}
	return n, nil
}

// fromReflect converts a host value to an engine value of static type t.
func (in *Interp) fromReflect(rv reflect.Value, t types.Type) Value {
	c := in.ctx
	if t != nil {
		if _, isIface := t.Underlying().(*types.Interface); isIface {
			if !rv.IsValid() || (rv.Kind() == reflect.Interface && rv.IsNil()) {
				return Iface{}
			}
			if rv.Kind() == reflect.Interface {
				rv = rv.Elem()
			}
			// unwrap adapters
			switch a := rv.Interface().(type) {
			case *errAdapter:
				return a.v
			case *stringerAdapter:
				return a.v
			case *writerAdapter:
				return a.v
			}
			if rv.Type().Implements(errorRT) {
				return Iface{T: in.nativeErrT, V: &Native{V: rv}}
			}
			switch rv.Kind() {
			case reflect.String:
				return Iface{T: types.Typ[types.String], V: rv.String()}
			case reflect.Int:
				return Iface{T: types.Typ[types.Int], V: c.BVC(64, uint64(rv.Int()))}
			case reflect.Int64:
				return Iface{T: types.Typ[types.Int64], V: c.BVC(64, uint64(rv.Int()))}
			case reflect.Bool:
				return Iface{T: types.Typ[types.Bool], V: c.BoolC(rv.Bool())}
			case reflect.Float64:
				return Iface{T: types.Typ[types.Float64], V: c.F64C(rv.Float())}
			}
			return Iface{T: in.nativeObjT, V: &Native{V: rv}}
		}
	}
	switch rv.Kind() {
	case reflect.Bool:
		return c.BoolC(rv.Bool())
	case reflect.Int, reflect.Int64:
		return c.BVC(64, uint64(rv.Int()))
	case reflect.Int8:
		return c.BVC(8, uint64(rv.Int()))
	case reflect.Int16:
		return c.BVC(16, uint64(rv.Int()))
	case reflect.Int32:
		return c.BVC(32, uint64(rv.Int()))
	case reflect.Uint, reflect.Uint64, reflect.Uintptr:
		return c.BVC(64, rv.Uint())
	case reflect.Uint8:
		return c.BVC(8, rv.Uint())
	case reflect.Uint16:
		return c.BVC(16, rv.Uint())
	case reflect.Uint32:
		return c.BVC(32, rv.Uint())
	case reflect.Float64:
		return c.F64C(rv.Float())
	case reflect.Float32:
		return c.F32C(float32(rv.Float()))
	case reflect.String:
		return rv.String()
	case reflect.Slice:
		// slices of basic/strings/slices are converted; others stay native
		if t != nil {
			if st, ok := t.Underlying().(*types.Slice); ok {
				if rv.IsNil() {
					return []Value(nil)
				}
				out := make([]Value, rv.Len())
				for i := range out {
					out[i] = in.fromReflect(rv.Index(i), st.Elem())
				}
				return out
			}
		}
		return &Native{V: rv}
	case reflect.Ptr, reflect.Struct, reflect.Map, reflect.Func, reflect.Chan, reflect.Interface:
		if (rv.Kind() == reflect.Ptr || rv.Kind() == reflect.Map || rv.Kind() == reflect.Interface) && rv.IsNil() {
			return (*Native)(nil)
		}
		return &Native{V: rv}
	case reflect.Array:
		out := make(Array, rv.Len())
		var et types.Type
		if t != nil {
			if at, ok := t.Underlying().(*types.Array); ok {
				et = at.Elem()
			}
		}
		for i := range out {
			out[i] = in.fromReflect(rv.Index(i), et)
		}
		return out
	}
	panic(fmt.Sprintf("fromReflect: unsupported kind %v", rv.Kind()))
}

// callNative calls a registered host function with engine arguments.
func (in *Interp) callNative(name string, fn interface{}, sig *types.Signature, args []Value) Value {
	rf := reflect.ValueOf(fn)
	rt := rf.Type()
	nin := rt.NumIn()
	ins := make([]reflect.Value, 0, len(args))
	if rt.IsVariadic() {
		for i := 0; i < nin-1; i++ {
			ins = append(ins, in.toReflect(args[i], rt.In(i), name))
		}
		// the engine passes the variadic tail as a slice
		tail, _ := args[nin-1].([]Value)
		et := rt.In(nin - 1).Elem()
		for _, e := range tail {
			ins = append(ins, in.toReflect(e, et, name))
		}
	} else {
		if len(args) != nin {
			panic(fmt.Sprintf("callNative %s: %d args, want %d", name, len(args), nin))
		}
		for i := 0; i < nin; i++ {
			ins = append(ins, in.toReflect(args[i], rt.In(i), name))
		}
	}
	outs := rf.Call(ins)
	res := sig.Results()
	switch len(outs) {
	case 0:
		return nil
	case 1:
		return in.fromReflect(outs[0], res.At(0).Type())
	}
	t := make(Tuple, len(outs))
	for i, o := range outs {
		t[i] = in.fromReflect(o, res.At(i).Type())
	}
	return t
}

// nativeMethod resolves an interface method call on a native receiver.
func (in *Interp) nativeMethod(recv Iface, meth *types.Func) Value {
	if recv.T == in.lazyErrT {
		le := recv.V.(*lazyErr)
		switch meth.Name() {
		case "Error":
			return &NativeFunc{Name: "lazyErr.Error", Fn: func(in *Interp, fr *frame, pos token.Pos, args []Value) Value {
				return in.lazyErrString(le)
			}}
		case "Unwrap":
			return &NativeFunc{Name: "lazyErr.Unwrap", Fn: func(in *Interp, fr *frame, pos token.Pos, args []Value) Value {
				return le.wrapped
			}}
		}
	}
	if rt, ok := recv.V.(*rtypeModel); ok {
		return in.rtypeMethod(rt, meth.Name())
	}
	n, ok := recv.V.(*Native)
	if !ok || n == nil {
		return nil
	}
	m := n.V.MethodByName(meth.Name())
	if !m.IsValid() && n.V.CanAddr() {
		m = n.V.Addr().MethodByName(meth.Name())
	}
	if !m.IsValid() {
		in.unsupported(fmt.Sprintf("native value %v has no method %s", n.V.Type(), meth.Name()))
	}
	sig := meth.Type().(*types.Signature)
	name := fmt.Sprintf("(%v).%s", n.V.Type(), meth.Name())
	return &NativeFunc{Name: name, Fn: func(in *Interp, fr *frame, pos token.Pos, args []Value) Value {
		return in.callNative(name, m.Interface(), sig, args[1:])
	}}
}

func (in *Interp) nativeImplements(n *Native, t types.Type, idst *types.Interface) (bool, bool) {
	if t != in.nativeErrT && t != in.nativeObjT {
		return false, false
	}
	for i := 0; i < idst.NumMethods(); i++ {
		if !n.V.MethodByName(idst.Method(i).Name()).IsValid() {
			return false, true
		}
	}
	return true, true
}
