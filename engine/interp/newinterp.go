package interp

import (
	"fmt"
	"go/token"
	"go/types"
	"reflect"

	"gosymx/sym"

	"golang.org/x/tools/go/ssa"
)

func reflectValueOf(x interface{}) reflect.Value { return reflect.ValueOf(x) }

func NewInterp(p *Program, cfg *Config, sh *Shared, id int) (*Interp, error) {
	in := &Interp{
		prog:       p.Prog,
		ctx:        sym.NewCtx(),
		cfg:        cfg,
		shared:     sh,
		constCache: map[*ssa.Const]Value{},
		hooks:      map[*ssa.Function]hookFn{},
		hookMiss:   map[*ssa.Function]bool{},
		funcsSeen:  map[*ssa.Function]bool{},
		nativeCache: map[string]Value{},
		Stats:      newStats(),
		workerID:   id,
		env:        map[string]string{},
		boundsUsed: map[string]int{},
	}
	in.lazyErrT = mkFakeErrType("fmtError")
	in.nativeErrT = mkFakeErrType("nativeError")
	in.nativeObjT = mkFakeErrType("nativeObject")
	in.rtypeT = mkFakeErrType("rtype")
	in.rtErrType = types.Typ[types.String]
	s, err := sym.NewSolver(cfg.SolverKind, cfg.SolverTimeoutMs)
	if err != nil {
		return nil, err
	}
	in.solver = s
	s.AllVars = func() []*sym.Term { return in.ctx.Vars }
	// initialise everything once; keep the state of non-target packages.
	in.resetPath()
	var initErr error
	func() {
		defer func() {
			if r := recover(); r != nil {
				switch p := r.(type) {
				case pathAbort:
					initErr = fmt.Errorf("package initialisation: %s: %s", p.kind, p.msg)
				case targetPanic:
					initErr = fmt.Errorf("package initialisation panicked: %s at %s", p.msg, p.pos)
				default:
					panic(r)
				}
			}
		}()
		for _, pkg := range p.Roots {
			if init := pkg.Func("init"); init != nil {
				in.call(nil, token.NoPos, init, nil)
			}
		}
	}()
	if initErr != nil {
		s.Close()
		return nil, initErr
	}
	in.stdGlobals = map[*ssa.Global]*Value{}
	for g, c := range in.globals {
		if g.Pkg == nil || pkgClass(g.Pkg.Pkg.Path()) != clsTarget {
			in.stdGlobals[g] = c
		}
	}
	in.Stats = newStats()
	return in, nil
}

func (in *Interp) Close() {
	if in.solver != nil {
		in.solver.Close()
	}
}

// runBody interprets the body of fr.fn.
func (in *Interp) runBody(fr *frame, args []Value, env []Value) Value {
	fn := fr.fn
	if fn.Blocks == nil {
		in.unsupported("no code for function " + fn.String())
	}
	if fn.TypeParams().Len() > 0 && len(fn.TypeArgs()) == 0 {
		in.unsupported("uninstantiated generic function " + fn.String())
	}
	in.funcsSeen[fn] = true
	fr.env = make(map[ssa.Value]Value, 16)
	fr.block = fn.Blocks[0]
	fr.locals = make([]Value, len(fn.Locals))
	for i, l := range fn.Locals {
		fr.locals[i] = in.zero(deref(l.Type()))
		fr.env[l] = &fr.locals[i]
	}
	for i, p := range fn.Params {
		fr.env[p] = args[i]
	}
	for i, fv := range fn.FreeVars {
		fr.env[fv] = env[i]
	}
	saved := in.curFrame
	in.curFrame = fr
	defer func() { in.curFrame = saved }()
	for fr.block != nil {
		fr.run()
		in.curFrame = fr
	}
	return fr.result
}

// ---------- monitor: frozen cells ----------

type monitor struct {
	frozen     map[*Value]string
	frozenMaps map[*Map]string
	race       bool
	acc        map[*Value]*cellAccess
	raced      map[string]bool
}

func (in *Interp) ensureMonitor() {
	if in.mon == nil {
		in.mon = &monitor{frozen: map[*Value]string{}, frozenMaps: map[*Map]string{}, acc: map[*Value]*cellAccess{}, raced: map[string]bool{}}
	}
}

func (m *monitor) onRead(fr *frame, addr *Value, pos token.Pos) {
	if m.race && fr != nil {
		m.raceRead(fr.in, fr, addr, pos)
	}
}

func (m *monitor) onWrite(fr *frame, addr *Value, pos token.Pos) {
	if m.race && fr != nil {
		m.raceWrite(fr.in, fr, addr, pos)
	}
	if tag, ok := m.frozen[addr]; ok {
		in := fr.in
		where := fr.pos(pos)
		in.reportViolation("assert", "write-to-frozen:"+tag, "write to frozen object ("+tag+") at "+where, fr, in.currentModel())
		delete(m.frozen, addr)
	}
}

func (in *Interp) monAppend(fr *frame, s []Value, n int, pos token.Pos) {
	if in.mon == nil || fr == nil {
		return
	}
	if len(s)+n <= cap(s) {
		full := s[:cap(s)]
		for i := len(s); i < len(s)+n; i++ {
			in.mon.onWrite(fr, &full[i], pos)
		}
	}
}

// walkCells visits every cell reachable from v.
func walkCells(v Value, seen map[*Value]bool, seenMaps map[*Map]bool, f func(c *Value), fm func(m *Map)) {
	switch v := v.(type) {
	case *Value:
		if v == nil || seen[v] {
			return
		}
		seen[v] = true
		f(v)
		walkInterior(v, seen, seenMaps, f, fm)
	case []Value:
		full := v[:cap(v)]
		for i := range full {
			c := &full[i]
			if seen[c] {
				continue
			}
			seen[c] = true
			f(c)
			walkInterior(c, seen, seenMaps, f, fm)
		}
	case Struct:
		for i := range v {
			walkCells(v[i], seen, seenMaps, f, fm)
		}
	case Array:
		for i := range v {
			walkCells(v[i], seen, seenMaps, f, fm)
		}
	case Iface:
		walkCells(v.V, seen, seenMaps, f, fm)
	case *Map:
		if v == nil || seenMaps[v] {
			return
		}
		seenMaps[v] = true
		if fm != nil {
			fm(v)
		}
		for _, e := range v.entries {
			if !e.deleted {
				walkCells(e.key, seen, seenMaps, f, fm)
				walkCells(e.val, seen, seenMaps, f, fm)
			}
		}
	case *Closure:
		if v != nil {
			for _, e := range v.Env {
				walkCells(e, seen, seenMaps, f, fm)
			}
		}
	}
}

// walkInterior visits the field/element cells inside the aggregate stored in c.
func walkInterior(c *Value, seen map[*Value]bool, seenMaps map[*Map]bool, f func(c *Value), fm func(m *Map)) {
	switch x := (*c).(type) {
	case Struct:
		for i := range x {
			fc := &x[i]
			if !seen[fc] {
				seen[fc] = true
				f(fc)
				walkInterior(fc, seen, seenMaps, f, fm)
			}
		}
	case Array:
		for i := range x {
			fc := &x[i]
			if !seen[fc] {
				seen[fc] = true
				f(fc)
				walkInterior(fc, seen, seenMaps, f, fm)
			}
		}
	default:
		walkCells(x, seen, seenMaps, f, fm)
	}
}

func (m *monitor) freeze(in *Interp, v Value, tag string) {
	walkCells(v, map[*Value]bool{}, map[*Map]bool{}, func(c *Value) { m.frozen[c] = tag }, func(mp *Map) { m.frozenMaps[mp] = tag })
}

// sharesMemory reports whether a and b reach a common mutable cell or map.
func (in *Interp) sharesMemory(a, b Value) bool {
	sa := map[*Value]bool{}
	ma := map[*Map]bool{}
	walkCells(a, sa, ma, func(c *Value) {}, nil)
	shared := false
	walkCells(b, map[*Value]bool{}, map[*Map]bool{}, func(c *Value) {
		if sa[c] {
			shared = true
		}
	}, func(m *Map) {
		if ma[m] {
			shared = true
		}
	})
	return shared
}

