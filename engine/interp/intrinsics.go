package interp

import (
	"fmt"
	"go/token"
	"go/types"
	"math"
	"strconv"

	"gosymx/sym"

	"golang.org/x/tools/go/ssa"
)

var intrinsics = map[string]hookFn{}

func reg(name string, h hookFn) { intrinsics[name] = h }

// runBody interprets fn's body (used by hooks that fall through).
func (fr *frame) runBody(args []Value) Value {
	return fr.in.runBody(fr, args, nil)
}

func tm(v Value) *sym.Term { return v.(*sym.Term) }

func (in *Interp) bytesOfSlice(v Value) []*sym.Term {
	xs := v.([]Value)
	out := make([]*sym.Term, len(xs))
	for i, x := range xs {
		out[i] = x.(*sym.Term)
	}
	return out
}

func (in *Interp) strBytes(v Value, why string) []*sym.Term {
	bs, ok := in.bytesOfStr(v)
	if !ok {
		bs, _ = in.bytesOfStr(in.concretizeAtoms(v, why))
	}
	return bs
}

// indexBytes finds the first index of sep in s, forking on symbolic bytes.
func (in *Interp) indexBytes(s, sep []*sym.Term, from int) int {
	c := in.ctx
	n := len(sep)
	if n == 0 {
		return from
	}
	for i := from; i+n <= len(s); i++ {
		m := c.True()
		for j := 0; j < n; j++ {
			m = c.And(m, c.Eq(s[i+j], sep[j]))
			if m.IsFalse() {
				break
			}
		}
		if in.branchX(m, 0, false, "strindex") {
			return i
		}
	}
	return -1
}

func (in *Interp) lastIndexBytes(s, sep []*sym.Term) int {
	c := in.ctx
	n := len(sep)
	if n == 0 {
		return len(s)
	}
	for i := len(s) - n; i >= 0; i-- {
		m := c.True()
		for j := 0; j < n; j++ {
			m = c.And(m, c.Eq(s[i+j], sep[j]))
			if m.IsFalse() {
				break
			}
		}
		if in.branchX(m, 0, false, "strindex") {
			return i
		}
	}
	return -1
}

func allConcrete(args []Value) bool {
	for _, a := range args {
		if !isConcreteDeep(a) {
			return false
		}
	}
	return true
}

func init() {
	// ----- strings / bytes -----
	reg("strings.Index", func(fr *frame, a []Value) Value {
		in := fr.in
		if x, ok := a[0].(string); ok {
			if y, ok := a[1].(string); ok {
				return in.intC(int64(indexStr(x, y)))
			}
		}
		return in.intC(int64(in.indexBytes(in.strBytes(a[0], "strings.Index"), in.strBytes(a[1], "strings.Index"), 0)))
	})
	reg("strings.IndexByte", func(fr *frame, a []Value) Value {
		in := fr.in
		return in.intC(int64(in.indexBytes(in.strBytes(a[0], "strings.IndexByte"), []*sym.Term{tm(a[1])}, 0)))
	})
	reg("internal/bytealg.IndexByteString", intrinsics["strings.IndexByte"])
	reg("internal/stringslite.IndexByte", intrinsics["strings.IndexByte"])
	reg("internal/stringslite.Index", intrinsics["strings.Index"])
	reg("internal/bytealg.IndexString", intrinsics["strings.Index"])
	reg("strings.LastIndex", func(fr *frame, a []Value) Value {
		in := fr.in
		return in.intC(int64(in.lastIndexBytes(in.strBytes(a[0], "strings.LastIndex"), in.strBytes(a[1], "strings.LastIndex"))))
	})
	reg("strings.LastIndexByte", func(fr *frame, a []Value) Value {
		in := fr.in
		return in.intC(int64(in.lastIndexBytes(in.strBytes(a[0], "strings.LastIndexByte"), []*sym.Term{tm(a[1])})))
	})
	reg("internal/bytealg.LastIndexByteString", intrinsics["strings.LastIndexByte"])
	reg("bytes.Index", func(fr *frame, a []Value) Value {
		in := fr.in
		return in.intC(int64(in.indexBytes(in.bytesOfSlice(a[0]), in.bytesOfSlice(a[1]), 0)))
	})
	reg("internal/bytealg.Index", intrinsics["bytes.Index"])
	reg("bytes.IndexByte", func(fr *frame, a []Value) Value {
		in := fr.in
		return in.intC(int64(in.indexBytes(in.bytesOfSlice(a[0]), []*sym.Term{tm(a[1])}, 0)))
	})
	reg("internal/bytealg.IndexByte", intrinsics["bytes.IndexByte"])
	reg("bytes.LastIndexByte", func(fr *frame, a []Value) Value {
		in := fr.in
		return in.intC(int64(in.lastIndexBytes(in.bytesOfSlice(a[0]), []*sym.Term{tm(a[1])})))
	})
	reg("internal/bytealg.LastIndexByte", intrinsics["bytes.LastIndexByte"])
	reg("bytes.Equal", func(fr *frame, a []Value) Value {
		in := fr.in
		x, y := in.bytesOfSlice(a[0]), in.bytesOfSlice(a[1])
		if len(x) != len(y) {
			return in.ctx.False()
		}
		r := in.ctx.True()
		for i := range x {
			r = in.ctx.And(r, in.ctx.Eq(x[i], y[i]))
		}
		return r
	})
	reg("internal/bytealg.Equal", intrinsics["bytes.Equal"])
	countFn := func(s, sep []*sym.Term, in *Interp) int {
		if len(sep) == 0 {
			return len(s) + 1 // callers with symbolic non-ASCII are out of scope
		}
		n := 0
		i := 0
		for {
			j := in.indexBytes(s, sep, i)
			if j < 0 {
				return n
			}
			n++
			i = j + len(sep)
		}
	}
	reg("strings.Count", func(fr *frame, a []Value) Value {
		in := fr.in
		if x, ok := a[0].(string); ok {
			if y, ok := a[1].(string); ok {
				return in.intC(int64(countStr(x, y)))
			}
		}
		return in.intC(int64(countFn(in.strBytes(a[0], "strings.Count"), in.strBytes(a[1], "strings.Count"), in)))
	})
	reg("internal/bytealg.CountString", func(fr *frame, a []Value) Value {
		in := fr.in
		return in.intC(int64(countFn(in.strBytes(a[0], "bytealg.CountString"), []*sym.Term{tm(a[1])}, in)))
	})
	reg("internal/bytealg.Count", func(fr *frame, a []Value) Value {
		in := fr.in
		return in.intC(int64(countFn(in.bytesOfSlice(a[0]), []*sym.Term{tm(a[1])}, in)))
	})
	reg("internal/bytealg.MakeNoZero", func(fr *frame, a []Value) Value {
		in := fr.in
		n := int(in.concreteInt(a[0], "MakeNoZero"))
		s := make([]Value, n)
		for i := range s {
			s[i] = in.byteC(0)
		}
		return s
	})
	reg("internal/bytealg.Compare", func(fr *frame, a []Value) Value {
		in := fr.in
		x, y := in.strFromBytes(in.bytesOfSlice(a[0])), in.strFromBytes(in.bytesOfSlice(a[1]))
		if in.branchX(in.strEq(x, y), 0, false, "compare") {
			return in.intC(0)
		}
		if in.branchX(in.strLess(x, y), 0, false, "compare") {
			return in.intC(-1)
		}
		return in.intC(1)
	})
	reg("strings.Compare", func(fr *frame, a []Value) Value {
		in := fr.in
		if in.branchX(in.strEq(a[0], a[1]), 0, false, "compare") {
			return in.intC(0)
		}
		if in.branchX(in.strLess(a[0], a[1]), 0, false, "compare") {
			return in.intC(-1)
		}
		return in.intC(1)
	})
	reg("(*strings.Builder).copyCheck", func(fr *frame, a []Value) Value { return nil })
	reg("(*strings.Builder).String", func(fr *frame, a []Value) Value {
		in := fr.in
		b := (*a[0].(*Value)).(Struct)
		return in.strFromBytes(in.bytesOfSlice(b[1]))
	})
	reg("(*strings.Builder).WriteString", func(fr *frame, a []Value) Value {
		// keep formatted-number atoms intact: the builder's buffer cannot hold
		// them, so a side list of parts is kept per builder cell.
		in := fr.in
		if s, ok := a[1].(*SStr); ok && hasAtoms(s.P) {
			in.builderAppendParts(a[0].(*Value), s)
			return Tuple{in.strLen0(s), Iface{}}
		}
		return fr.runBody(a)
	})
	reg("strings.Clone", func(fr *frame, a []Value) Value { return a[0] })
	reg("internal/stringslite.Clone", func(fr *frame, a []Value) Value { return a[0] })
	reg("strings.Join", func(fr *frame, a []Value) Value {
		in := fr.in
		elems := a[0].([]Value)
		var ps []SPart
		for i, e := range elems {
			if i > 0 {
				ps = append(ps, partsOf(a[1])...)
			}
			ps = append(ps, partsOf(e)...)
		}
		return in.mkStr(ps)
	})

	// ----- strconv -----
	fmtInt := func(signed bool) hookFn {
		return func(fr *frame, a []Value) Value {
			in := fr.in
			t := tm(a[0])
			base := int(in.concreteInt(a[1], "strconv base"))
			if t.IsConst() {
				if signed {
					return strconv.FormatInt(t.Int64(), base)
				}
				return strconv.FormatUint(t.C, base)
			}
			return in.mkStr([]SPart{{A: &Atom{Kind: "int", T: t, Base: base, Signed: signed}}})
		}
	}
	reg("strconv.FormatInt", fmtInt(true))
	reg("strconv.FormatUint", fmtInt(false))
	reg("strconv.Itoa", func(fr *frame, a []Value) Value {
		in := fr.in
		t := tm(a[0])
		if t.IsConst() {
			return strconv.Itoa(int(t.Int64()))
		}
		return in.mkStr([]SPart{{A: &Atom{Kind: "int", T: t, Base: 10, Signed: true}}})
	})
	parseAtom := func(fr *frame, a []Value, signed bool, bitSize int) (Value, bool) {
		in := fr.in
		s, ok := a[0].(*SStr)
		if !ok || len(s.P) != 1 || s.P[0].A == nil || s.P[0].A.Kind != "int" {
			return nil, false
		}
		at := s.P[0].A
		base := 10
		if len(a) > 1 {
			base = int(in.concreteInt(a[1], "base"))
		}
		if at.Base != base || at.Signed != signed || at.T.Sort.W != 64 || bitSize != 64 {
			return nil, false
		}
		return Tuple{at.T, Iface{}}, true
	}
	reg("strconv.ParseInt", func(fr *frame, a []Value) Value {
		if s, ok := a[0].(string); ok && isConcreteDeep(a[1]) && isConcreteDeep(a[2]) {
			v, err := strconv.ParseInt(s, int(tm(a[1]).Int64()), int(tm(a[2]).Int64()))
			return Tuple{fr.in.intC(v), fr.in.nativeErr(err)}
		}
		bs := 64
		if tm(a[2]).IsConst() && tm(a[2]).Int64() != 0 {
			bs = int(tm(a[2]).Int64())
		}
		if r, ok := parseAtom(fr, a, true, bs); ok {
			return r
		}
		return fr.runBody(a)
	})
	reg("strconv.ParseUint", func(fr *frame, a []Value) Value {
		if s, ok := a[0].(string); ok && isConcreteDeep(a[1]) && isConcreteDeep(a[2]) {
			v, err := strconv.ParseUint(s, int(tm(a[1]).Int64()), int(tm(a[2]).Int64()))
			return Tuple{fr.in.ctx.BVC(64, v), fr.in.nativeErr(err)}
		}
		bs := 64
		if tm(a[2]).IsConst() && tm(a[2]).Int64() != 0 {
			bs = int(tm(a[2]).Int64())
		}
		if r, ok := parseAtom(fr, a, false, bs); ok {
			return r
		}
		return fr.runBody(a)
	})
	reg("strconv.Atoi", func(fr *frame, a []Value) Value {
		if s, ok := a[0].(string); ok {
			v, err := strconv.Atoi(s)
			return Tuple{fr.in.intC(int64(v)), fr.in.nativeErr(err)}
		}
		if r, ok := parseAtom(fr, a, true, 64); ok {
			return r
		}
		return fr.runBody(a)
	})

	// ----- math -----
	f1 := func(name string, sy func(c *sym.Ctx, x *sym.Term) *sym.Term) {
		reg("math."+name, func(fr *frame, a []Value) Value { return sy(fr.in.ctx, tm(a[0])) })
	}
	f1("Abs", func(c *sym.Ctx, x *sym.Term) *sym.Term { return c.FAbs(x) })
	f1("Round", func(c *sym.Ctx, x *sym.Term) *sym.Term { return c.FRnd(x, 0) })
	f1("Floor", func(c *sym.Ctx, x *sym.Term) *sym.Term { return c.FRnd(x, 1) })
	f1("Ceil", func(c *sym.Ctx, x *sym.Term) *sym.Term { return c.FRnd(x, 2) })
	f1("Trunc", func(c *sym.Ctx, x *sym.Term) *sym.Term { return c.FRnd(x, 3) })
	f1("RoundToEven", func(c *sym.Ctx, x *sym.Term) *sym.Term { return c.FRnd(x, 4) })
	f1("Sqrt", func(c *sym.Ctx, x *sym.Term) *sym.Term { return c.FSqrt(x) })
	f1("IsNaN", func(c *sym.Ctx, x *sym.Term) *sym.Term { return c.FIsNaN(x) })
	reg("math.IsInf", func(fr *frame, a []Value) Value {
		c := fr.in.ctx
		x := tm(a[0])
		sign := fr.in.concreteInt(a[1], "math.IsInf sign")
		inf := c.FIsInf(x)
		switch {
		case sign > 0:
			return c.And(inf, c.FLt(c.F64C(0), x))
		case sign < 0:
			return c.And(inf, c.FLt(x, c.F64C(0)))
		}
		return inf
	})
	reg("math.Inf", func(fr *frame, a []Value) Value {
		return fr.in.ctx.F64C(math.Inf(int(fr.in.concreteInt(a[0], "math.Inf"))))
	})
	reg("math.NaN", func(fr *frame, a []Value) Value { return fr.in.ctx.F64C(math.NaN()) })
	reg("math.Max", func(fr *frame, a []Value) Value {
		c := fr.in.ctx
		x, y := tm(a[0]), tm(a[1])
		if x.IsConst() && y.IsConst() {
			return c.F64C(math.Max(x.Float(), y.Float()))
		}
		fr.in.note("math.Max on symbolic operands: NaN/±0 special cases not modelled")
		return c.Ite(c.FLt(x, y), y, x)
	})
	reg("math.Min", func(fr *frame, a []Value) Value {
		c := fr.in.ctx
		x, y := tm(a[0]), tm(a[1])
		if x.IsConst() && y.IsConst() {
			return c.F64C(math.Min(x.Float(), y.Float()))
		}
		fr.in.note("math.Min on symbolic operands: NaN/±0 special cases not modelled")
		return c.Ite(c.FLt(y, x), y, x)
	})
	uf1 := func(name string, f func(float64) float64) {
		reg("math."+name, func(fr *frame, a []Value) Value {
			c := fr.in.ctx
			x := tm(a[0])
			if x.IsConst() {
				return c.F64C(f(x.Float()))
			}
			fr.in.note("math." + name + " of a symbolic value is an uninterpreted function (arbitrary result)")
			return c.UF("uf_math_"+name, sym.F64, x)
		})
	}
	uf1("Exp", math.Exp)
	uf1("Log", math.Log)
	uf1("Log2", math.Log2)
	uf1("Log10", math.Log10)
	reg("math.Pow", func(fr *frame, a []Value) Value {
		c := fr.in.ctx
		x, y := tm(a[0]), tm(a[1])
		if x.IsConst() && y.IsConst() {
			return c.F64C(math.Pow(x.Float(), y.Float()))
		}
		fr.in.note("math.Pow of a symbolic value is an uninterpreted function (arbitrary result)")
		return c.UF("uf_math_Pow", sym.F64, x, y)
	})
	reg("math.Mod", func(fr *frame, a []Value) Value {
		c := fr.in.ctx
		x, y := tm(a[0]), tm(a[1])
		if x.IsConst() && y.IsConst() {
			return c.F64C(math.Mod(x.Float(), y.Float()))
		}
		return c.UF("uf_math_Mod", sym.F64, x, y)
	})
	reg("math.Float64bits", func(fr *frame, a []Value) Value {
		x := tm(a[0])
		if x.IsConst() {
			return fr.in.ctx.BVC(64, x.C)
		}
		fr.in.unsupported("math.Float64bits of symbolic float")
		return nil
	})
	reg("math.Float64frombits", func(fr *frame, a []Value) Value {
		return fr.in.ctx.FBits(tm(a[0]))
	})
	reg("math.Copysign", func(fr *frame, a []Value) Value {
		c := fr.in.ctx
		x, y := tm(a[0]), tm(a[1])
		if x.IsConst() && y.IsConst() {
			return c.F64C(math.Copysign(x.Float(), y.Float()))
		}
		neg := c.FLt(y, c.F64C(0)) // sign of y (-0 and NaN not distinguished for symbolic y)
		return c.Ite(neg, c.FNeg(c.FAbs(x)), c.FAbs(x))
	})
	reg("math.Signbit", func(fr *frame, a []Value) Value {
		c := fr.in.ctx
		x := tm(a[0])
		if x.IsConst() {
			return c.BoolC(math.Signbit(x.Float()))
		}
		return c.FLt(x, c.F64C(0))
	})

	// ----- sort -----
	sortSlice := func(fr *frame, a []Value) Value {
		in := fr.in
		itf := a[0].(Iface)
		xs, _ := itf.V.([]Value)
		less := a[1]
		// insertion sort with swaps on the shared backing store
		for i := 1; i < len(xs); i++ {
			for j := i; j > 0; j-- {
				r := in.call(fr, token.NoPos, less, []Value{in.intC(int64(j)), in.intC(int64(j - 1))})
				if !in.branchX(tm(r), 0, false, "sortless") {
					break
				}
				xs[j], xs[j-1] = xs[j-1], xs[j]
			}
		}
		return nil
	}
	reg("sort.Slice", sortSlice)
	reg("sort.SliceStable", sortSlice)

	// ----- errors -----
	reg("errors.Is", func(fr *frame, a []Value) Value {
		in := fr.in
		err, target := a[0].(Iface), a[1].(Iface)
		for depth := 0; depth < 32 && err.T != nil; depth++ {
			if in.comparableIface(err) && in.comparableIface(target) {
				if in.branchX(in.eqVal(err, target), 0, false, "errors.Is") {
					return in.ctx.True()
				}
			}
			nx, ok := in.unwrapErr(fr, err)
			if !ok {
				break
			}
			err = nx
		}
		return in.ctx.BoolC(err.T == nil && target.T == nil)
	})
	reg("errors.Unwrap", func(fr *frame, a []Value) Value {
		nx, _ := fr.in.unwrapErr(fr, a[0].(Iface))
		return nx
	})
	reg("errors.As", func(fr *frame, a []Value) Value {
		in := fr.in
		err := a[0].(Iface)
		tgt := a[1].(Iface)
		pt, ok := tgt.T.Underlying().(*types.Pointer)
		if !ok {
			in.unsupported("errors.As target")
		}
		cell := tgt.V.(*Value)
		for depth := 0; depth < 32 && err.T != nil; depth++ {
			if _, isI := pt.Elem().Underlying().(*types.Interface); isI {
				if in.implements(err, pt.Elem().Underlying().(*types.Interface)) {
					*cell = err
					return in.ctx.True()
				}
			} else if types.Identical(err.T, pt.Elem()) {
				*cell = err.V
				return in.ctx.True()
			}
			nx, ok := in.unwrapErr(fr, err)
			if !ok {
				break
			}
			err = nx
		}
		return in.ctx.False()
	})

	// ----- os / runtime odds and ends -----
	reg("os.Getenv", func(fr *frame, a []Value) Value {
		k := fr.in.concreteString(a[0], "os.Getenv")
		if v, ok := fr.in.env[k]; ok {
			return v
		}
		return ""
	})
	reg("os.Exit", func(fr *frame, a []Value) Value {
		fr.in.abort("done", "os.Exit")
		return nil
	})
	reg("(*debug/elf.File).Close", func(fr *frame, a []Value) Value { return Iface{} })
	reg("errors.init", func(fr *frame, a []Value) Value { return nil })
	reg("path/filepath.Glob", func(fr *frame, a []Value) Value { return Tuple{[]Value(nil), Iface{}} })
	reg("runtime.GC", func(fr *frame, a []Value) Value { return nil })
	reg("runtime.Gosched", func(fr *frame, a []Value) Value { return nil })
	reg("runtime.KeepAlive", func(fr *frame, a []Value) Value { return nil })
	reg("runtime.SetFinalizer", func(fr *frame, a []Value) Value { return nil })
	reg("time.Now", func(fr *frame, a []Value) Value {
		fr.in.unsupported("time.Now (clock is not modelled)")
		return nil
	})
	reg("unicode/utf8.RuneCountInString", func(fr *frame, a []Value) Value {
		in := fr.in
		if s, ok := a[0].(string); ok {
			return in.intC(int64(len([]rune(s))))
		}
		return fr.runBody(a)
	})
}

func indexStr(s, sep string) int {
	n := len(sep)
	for i := 0; i+n <= len(s); i++ {
		if s[i:i+n] == sep {
			return i
		}
	}
	return -1
}

func countStr(s, sep string) int {
	if sep == "" {
		return len([]rune(s)) + 1
	}
	n := 0
	for {
		i := indexStr(s, sep)
		if i < 0 {
			return n
		}
		n++
		s = s[i+len(sep):]
	}
}

func (in *Interp) strLen0(s *SStr) Value {
	// length of a string with atoms is not known without concretizing; callers
	// of WriteString ignore it.
	return in.intC(0)
}

// builderAppendParts appends a string containing atoms to a strings.Builder by
// first flushing the builder's current bytes into a pending part list.
func (in *Interp) builderAppendParts(b *Value, s *SStr) {
	in.unsupported("strings.Builder.WriteString of a formatted symbolic number")
}

func (in *Interp) comparableIface(v Iface) bool {
	if v.T == nil {
		return true
	}
	return types.Comparable(v.T)
}

func (in *Interp) unwrapErr(fr *frame, err Iface) (Iface, bool) {
	if err.T == nil {
		return Iface{}, false
	}
	if err.T == in.lazyErrT {
		le := err.V.(*lazyErr)
		if w, ok := le.wrapped.(Iface); ok && w.T != nil {
			return w, true
		}
		return Iface{}, false
	}
	if n, ok := err.V.(*Native); ok && n != nil {
		if u, ok := n.V.Interface().(interface{ Unwrap() error }); ok {
			return in.nativeErr(u.Unwrap()), true
		}
		return Iface{}, false
	}
	ms := in.prog.MethodSets.MethodSet(err.T)
	for i := 0; i < ms.Len(); i++ {
		if ms.At(i).Obj().Name() == "Unwrap" {
			r := in.callMethod(err, "Unwrap")
			if ri, ok := r.(Iface); ok {
				return ri, ri.T != nil
			}
		}
	}
	return Iface{}, false
}

func (in *Interp) nativeErr(err error) Iface {
	if err == nil {
		return Iface{}
	}
	if a, ok := err.(*errAdapter); ok {
		return a.v
	}
	return Iface{T: in.nativeErrT, V: &Native{V: reflectValueOf(err)}}
}

var _ = fmt.Sprint
var _ *ssa.Function

func init() {
	// Formatting of symbolic quantities is not the subject of any check that
	// reaches these functions with symbolic arguments: the text becomes an
	// opaque atom (it may be concatenated and written, never inspected).
	opaque := func(name string) hookFn {
		return func(fr *frame, a []Value) Value {
			in := fr.in
			var ts []*sym.Term
			symbolic := false
			for _, x := range a {
				if t, ok := x.(*sym.Term); ok {
					ts = append(ts, t)
					if !t.IsConst() {
						symbolic = true
					}
				}
			}
			if !symbolic {
				return fr.runBody(a)
			}
			in.note("stub: " + name + " of a symbolic value yields opaque text")
			extra := ""
			for _, x := range a {
				if s, ok := x.(string); ok {
					extra += "," + s
				}
			}
			return in.mkStr([]SPart{{A: &Atom{Kind: "opaque", Verb: name + extra, Args: ts}}})
		}
	}
	reg("github.com/google/pprof/internal/measurement.ScaledLabel", opaque("ScaledLabel"))
	reg("github.com/google/pprof/internal/measurement.Label", opaque("Label"))
	reg("github.com/google/pprof/internal/measurement.Percentage", opaque("Percentage"))
}

func hasOpaque(v Value) bool {
	s, ok := v.(*SStr)
	if !ok {
		return false
	}
	for _, p := range s.P {
		if p.A != nil && p.A.Kind == "opaque" {
			return true
		}
	}
	return false
}

func init() {
	// String transformations of text that contains opaque formatted numbers
	// yield derived opaque text (never inspected by any check).
	derive := func(name string) hookFn {
		return func(fr *frame, a []Value) Value {
			if !hasOpaque(a[0]) {
				return fr.runBody(a)
			}
			in := fr.in
			var ts []*sym.Term
			verb := name + "("
			for _, p := range a[0].(*SStr).P {
				switch {
				case p.A != nil:
					verb += p.A.Verb + "|"
					ts = append(ts, p.A.Args...)
					if p.A.T != nil {
						ts = append(ts, p.A.T)
					}
				case p.B != nil:
					ts = append(ts, p.B)
					verb += "?"
				default:
					verb += p.Lit
				}
			}
			for _, x := range a[1:] {
				if s, ok := x.(string); ok {
					verb += "," + s
				}
			}
			return in.mkStr([]SPart{{A: &Atom{Kind: "opaque", Verb: verb + ")", Args: ts}}})
		}
	}
	reg("strings.TrimSpace", derive("TrimSpace"))
	reg("strings.TrimSuffix", derive("TrimSuffix"))
	reg("strings.TrimPrefix", derive("TrimPrefix"))
	reg("strings.ToLower", derive("ToLower"))
}
