package interp

import (
	"crypto/sha256"
	"fmt"
	"os"
	"path/filepath"
	"regexp"
	"strconv"
	"strings"
	"time"
	"unicode"

	"gosymx/sym"
)

// nativeRegistry lists host functions that are called natively (all arguments
// concrete; a symbolic argument is concretized and counted).
var nativeRegistry = map[string]interface{}{
	"regexp.MustCompile":                         regexp.MustCompile,
	"regexp.Compile":                             regexp.Compile,
	"regexp.QuoteMeta":                           regexp.QuoteMeta,
	"regexp.MatchString":                         regexp.MatchString,
	"(*regexp.Regexp).String":                    (*regexp.Regexp).String,
	"(*regexp.Regexp).FindStringSubmatch":        (*regexp.Regexp).FindStringSubmatch,
	"(*regexp.Regexp).FindAllStringSubmatch":     (*regexp.Regexp).FindAllStringSubmatch,
	"(*regexp.Regexp).FindAllString":             (*regexp.Regexp).FindAllString,
	"(*regexp.Regexp).FindString":                (*regexp.Regexp).FindString,
	"(*regexp.Regexp).FindStringIndex":           (*regexp.Regexp).FindStringIndex,
	"(*regexp.Regexp).FindStringSubmatchIndex":   (*regexp.Regexp).FindStringSubmatchIndex,
	"(*regexp.Regexp).FindAllStringIndex":        (*regexp.Regexp).FindAllStringIndex,
	"(*regexp.Regexp).FindAllStringSubmatchIndex": (*regexp.Regexp).FindAllStringSubmatchIndex,
	"(*regexp.Regexp).ReplaceAllString":          (*regexp.Regexp).ReplaceAllString,
	"(*regexp.Regexp).Match":                     (*regexp.Regexp).Match,
	"(*regexp.Regexp).FindSubmatch":              (*regexp.Regexp).FindSubmatch,
	"(*regexp.Regexp).NumSubexp":                 (*regexp.Regexp).NumSubexp,
	"(*regexp.Regexp).SubexpNames":               (*regexp.Regexp).SubexpNames,

	"strings.NewReplacer":          strings.NewReplacer,
	"(*strings.Replacer).Replace":  (*strings.Replacer).Replace,
	"strings.EqualFold":            strings.EqualFold,
	"strings.Title":                strings.Title,
	"strings.ToUpper":              strings.ToUpper,
	"strconv.Quote":                strconv.Quote,
	"strconv.Unquote":              strconv.Unquote,
	"strconv.ParseFloat":           strconv.ParseFloat,
	"strconv.FormatFloat":          strconv.FormatFloat,
	"strconv.QuoteToASCII":         strconv.QuoteToASCII,
	"unicode.IsSpace":              unicode.IsSpace,
	"unicode.IsUpper":              unicode.IsUpper,
	"unicode.IsLower":              unicode.IsLower,
	"unicode.IsDigit":              unicode.IsDigit,
	"unicode.IsLetter":             unicode.IsLetter,
	"unicode.IsPrint":              unicode.IsPrint,
	"unicode.ToLower":              unicode.ToLower,
	"unicode.ToUpper":              unicode.ToUpper,

	"time.Unix":             time.Unix,
	"(time.Time).Format":    time.Time.Format,
	"(time.Time).IsZero":    time.Time.IsZero,
	"(time.Time).UnixNano":  time.Time.UnixNano,
	"(time.Duration).String": time.Duration.String,
	"(time.Duration).Seconds": time.Duration.Seconds,

	"crypto/sha256.Sum256": sha256.Sum256,
	"os.IsNotExist": os.IsNotExist,
	"os.IsExist":    os.IsExist,
	"path/filepath.Base":  filepath.Base,
	"path/filepath.Dir":   filepath.Dir,
	"path/filepath.Join":  filepath.Join,
	"path/filepath.Clean": filepath.Clean,
	"path/filepath.IsAbs": filepath.IsAbs,
	"path/filepath.Ext":   filepath.Ext,
	"path/filepath.ToSlash": filepath.ToSlash,
	"path/filepath.SplitList": filepath.SplitList,
	"path/filepath.VolumeName": filepath.VolumeName,
}

func init() {
	// regexp.MustCompile is memoised: compiled regexps are immutable.
	memoCompile := func(must bool) hookFn {
		return func(fr *frame, a []Value) Value {
			in := fr.in
			pat := in.concreteString(a[0], "regexp pattern")
			key := "rx:" + pat
			if v, ok := in.nativeCache[key]; ok {
				if must {
					return v
				}
				return Tuple{v, Iface{}}
			}
			re, err := regexp.Compile(pat)
			if err != nil {
				if must {
					panic(targetPanic{msg: "regexp: Compile(" + strconv.Quote(pat) + "): " + err.Error()})
				}
				return Tuple{(*Native)(nil), in.nativeErr(err)}
			}
			v := &Native{V: reflectValueOf(re)}
			in.nativeCache[key] = v
			if must {
				return v
			}
			return Tuple{v, Iface{}}
		}
	}
	reg("regexp.MustCompile", memoCompile(true))
	reg("regexp.Compile", memoCompile(false))

	// MatchString: symbolic regexps are arbitrary predicates on strings.
	reg("(*regexp.Regexp).MatchString", func(fr *frame, a []Value) Value {
		in := fr.in
		switch re := a[0].(type) {
		case *SymRegexp:
			s := in.concreteString(a[1], "subject of a symbolic regexp")
			return in.symMatch(re, s)
		case *Native:
			if re == nil {
				fr.rtPanic(0, "invalid memory address or nil pointer dereference (nil *regexp.Regexp)")
			}
			s := in.concreteString(a[1], "regexp subject")
			return in.ctx.BoolC(re.V.Interface().(*regexp.Regexp).MatchString(s))
		}
		panic(fmt.Sprintf("MatchString on %T", a[0]))
	})
	reg("(*regexp.Regexp).String", func(fr *frame, a []Value) Value {
		switch re := a[0].(type) {
		case *SymRegexp:
			return "<sym:" + re.Name + ">"
		case *Native:
			return re.V.Interface().(*regexp.Regexp).String()
		}
		panic("String on non-regexp")
	})
}

// symMatch returns the memoised boolean match[re][s].
func (in *Interp) symMatch(re *SymRegexp, s string) *sym.Term {
	key := re.Name + "\x00" + s
	if t, ok := in.rxMemo[key]; ok {
		return t
	}
	name := fmt.Sprintf("rx[%s][%s]", re.Name, sanitize(s))
	t := in.input(name, "bool", sym.Bool)
	in.rxMemo[key] = t
	return t
}

func sanitize(s string) string {
	var sb strings.Builder
	for i := 0; i < len(s); i++ {
		c := s[i]
		if c == '|' || c == '\\' || c < 0x20 || c >= 0x7f {
			fmt.Fprintf(&sb, "%%%02x", c)
		} else {
			sb.WriteByte(c)
		}
	}
	return sb.String()
}

// classFill replaces the symbolic bytes of s by concrete representatives of
// their character class (digit / lower / upper), if the path condition fixes
// the class of each. It returns two different fillings, or ok=false.
func (in *Interp) classFill(s *SStr) (string, string, bool) {
	c := in.ctx
	var a, b []byte
	for _, p := range s.P {
		switch {
		case p.A != nil:
			return "", "", false
		case p.B != nil:
			x := p.B
			inRange := func(lo, hi byte) *sym.Term {
				return c.And(c.ULe(c.BVC(8, uint64(lo)), x), c.ULe(x, c.BVC(8, uint64(hi))))
			}
			switch {
			case in.mustBeFalse(c.Not(inRange('0', '9'))):
				a, b = append(a, '1'), append(b, '8')
			case in.mustBeFalse(c.Not(inRange('a', 'z'))):
				a, b = append(a, 'a'), append(b, 'q')
			case in.mustBeFalse(c.Not(inRange('A', 'Z'))):
				a, b = append(a, 'A'), append(b, 'Q')
			default:
				return "", "", false
			}
		default:
			a, b = append(a, p.Lit...), append(b, p.Lit...)
		}
	}
	return string(a), string(b), true
}

func sameIdx(x, y [][]int) bool {
	if len(x) != len(y) {
		return false
	}
	for i := range x {
		if len(x[i]) != len(y[i]) {
			return false
		}
		for j := range x[i] {
			if x[i][j] != y[i][j] {
				return false
			}
		}
	}
	return true
}

func init() {
	// Submatch extraction on a subject with symbolic bytes whose character
	// classes are fixed by the path condition: the match structure is computed
	// natively on two class-preserving fillings (they must agree) and the
	// captures are cut out of the symbolic subject.
	submatch := func(all bool) hookFn {
		return func(fr *frame, a []Value) Value {
			in := fr.in
			re, ok := a[0].(*Native)
			if !ok || re == nil {
				in.unsupported("submatch on a symbolic regexp")
			}
			rx := re.V.Interface().(*regexp.Regexp)
			n := -1
			if all {
				n = int(in.concreteInt(a[2], "FindAllStringSubmatch n"))
			}
			toVal := func(subj Value, idx [][]int) Value {
				var out []Value
				for _, m := range idx {
					var caps []Value
					for g := 0; g+1 < len(m); g += 2 {
						if m[g] < 0 {
							caps = append(caps, "")
						} else {
							caps = append(caps, in.strSlice(subj, m[g], m[g+1]))
						}
					}
					out = append(out, caps)
				}
				if !all {
					if len(out) == 0 {
						return []Value(nil)
					}
					return out[0]
				}
				if out == nil {
					return []Value(nil)
				}
				return out
			}
			if s, isSym := a[1].(*SStr); isSym {
				if f1, f2, ok := in.classFill(s); ok {
					var i1, i2 [][]int
					if all {
						i1, i2 = rx.FindAllStringSubmatchIndex(f1, n), rx.FindAllStringSubmatchIndex(f2, n)
					} else {
						if m := rx.FindStringSubmatchIndex(f1); m != nil {
							i1 = [][]int{m}
						}
						if m := rx.FindStringSubmatchIndex(f2); m != nil {
							i2 = [][]int{m}
						}
					}
					if sameIdx(i1, i2) {
						in.note("regexp submatch on symbolic digits/letters: match structure taken from class-preserving fillings (regexp assumed uniform on the class)")
						return toVal(s, i1)
					}
				}
			}
			subj := in.concreteString(a[1], "regexp subject")
			var idx [][]int
			if all {
				idx = rx.FindAllStringSubmatchIndex(subj, n)
			} else if m := rx.FindStringSubmatchIndex(subj); m != nil {
				idx = [][]int{m}
			}
			return toVal(subj, idx)
		}
	}
	reg("(*regexp.Regexp).FindAllStringSubmatch", submatch(true))
	reg("(*regexp.Regexp).FindStringSubmatch", submatch(false))
}
