package interp

import (
	"fmt"
	"os"
	"strings"

	"golang.org/x/tools/go/packages"
	"golang.org/x/tools/go/ssa"
	"golang.org/x/tools/go/ssa/ssautil"
)

// Load loads the given packages of the module in dir (with overlay files) and
// builds SSA for them and all their dependencies.
func Load(dir string, patterns []string, overlay map[string][]byte, tags string) (*Program, error) {
	cfg := &packages.Config{
		Mode:    packages.LoadAllSyntax,
		Dir:     dir,
		Overlay: overlay,
		Env:     append(os.Environ(), "GOFLAGS=-mod=mod", "GOPROXY=off", "GOSUMDB=off", "GOTOOLCHAIN=local"),
	}
	if tags != "" {
		cfg.BuildFlags = []string{"-tags=" + tags}
	}
	initial, err := packages.Load(cfg, patterns...)
	if err != nil {
		return nil, err
	}
	var errs []string
	packages.Visit(initial, nil, func(p *packages.Package) {
		for _, e := range p.Errors {
			errs = append(errs, fmt.Sprintf("%s: %s: %s", p.PkgPath, e.Pos, e.Msg))
		}
	})
	if len(errs) > 0 {
		return nil, fmt.Errorf("HARNESS-STALE: load errors:\n%s", strings.Join(errs, "\n"))
	}
	prog, pkgs := ssautil.AllPackages(initial, ssa.InstantiateGenerics)
	prog.Build()
	p := &Program{Prog: prog, Pkgs: map[string]*ssa.Package{}}
	for i, pk := range pkgs {
		if pk == nil {
			return nil, fmt.Errorf("no SSA package for %s", initial[i].PkgPath)
		}
		p.Pkgs[pk.Pkg.Path()] = pk
		p.Roots = append(p.Roots, pk)
	}
	return p, nil
}

// FindFunc looks up a package-level function.
func (p *Program) FindFunc(pkgPath, name string) *ssa.Function {
	pk := p.Pkgs[pkgPath]
	if pk == nil {
		return nil
	}
	return pk.Func(name)
}
