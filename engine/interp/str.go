package interp

import (
	"fmt"
	"strconv"
	"strings"

	"gosymx/sym"
)

// SStr is a string with symbolic parts. Adjacent literals are merged and
// at least one part is non-literal.
type SStr struct {
	P []SPart
}

type SPart struct {
	Lit string    // literal bytes, or
	B   *sym.Term // one symbolic byte (BV8), or
	A   *Atom     // a formatted symbolic number
}

// Atom is the textual rendering of a symbolic number.
type Atom struct {
	Kind   string // "int" (strconv.FormatInt/Uint style) | "opaque"
	T      *sym.Term
	Base   int
	Signed bool
	Verb   string      // opaque: format verb
	Args   []*sym.Term // opaque
}

func (a *Atom) alphabet(c byte) bool {
	if a.Kind != "int" {
		return true // anything
	}
	if c == '-' {
		return a.Signed
	}
	if c >= '0' && c <= '9' {
		return int(c-'0') < a.Base
	}
	if c >= 'a' && c <= 'z' {
		return int(c-'a')+10 < a.Base
	}
	return false
}

func (a *Atom) sameFormat(b *Atom) bool {
	return a.Kind == b.Kind && a.Base == b.Base && a.Signed == b.Signed && a.T.Sort == b.T.Sort
}

func (a *Atom) String() string {
	if a.Kind == "int" {
		return fmt.Sprintf("⟨%v base%d⟩", a.T, a.Base)
	}
	return fmt.Sprintf("⟨%s %v⟩", a.Verb, a.Args)
}

func (s *SStr) String() string {
	var sb strings.Builder
	for _, p := range s.P {
		switch {
		case p.B != nil:
			fmt.Fprintf(&sb, "⟨%v⟩", p.B)
		case p.A != nil:
			sb.WriteString(p.A.String())
		default:
			sb.WriteString(strconv.Quote(p.Lit))
		}
	}
	return sb.String()
}

func partsOf(v Value) []SPart {
	switch v := v.(type) {
	case string:
		if v == "" {
			return nil
		}
		return []SPart{{Lit: v}}
	case *SStr:
		return v.P
	}
	panic(fmt.Sprintf("partsOf: not a string: %T", v))
}

// mkStr normalises a part list into string | *SStr.
func (in *Interp) mkStr(ps []SPart) Value {
	out := make([]SPart, 0, len(ps))
	symb := false
	for _, p := range ps {
		if p.B != nil && p.B.IsConst() {
			p = SPart{Lit: string([]byte{byte(p.B.C)})}
		}
		if p.A != nil && p.A.Kind == "int" && p.A.T.IsConst() {
			p = SPart{Lit: renderIntAtom(p.A, p.A.T.C)}
		}
		if p.B == nil && p.A == nil {
			if p.Lit == "" {
				continue
			}
			if n := len(out); n > 0 && out[n-1].B == nil && out[n-1].A == nil {
				out[n-1].Lit += p.Lit
				continue
			}
		} else {
			symb = true
		}
		out = append(out, p)
	}
	if !symb {
		if len(out) == 0 {
			return ""
		}
		return out[0].Lit
	}
	return &SStr{P: out}
}

func renderIntAtom(a *Atom, bits uint64) string {
	w := a.T.Sort.W
	if a.Signed {
		var v int64
		if w >= 64 {
			v = int64(bits)
		} else {
			sh := uint(64 - w)
			v = int64(bits<<sh) >> sh
		}
		return strconv.FormatInt(v, a.Base)
	}
	return strconv.FormatUint(bits, a.Base)
}

func (in *Interp) strConcat(a, b Value) Value {
	if x, ok := a.(string); ok {
		if y, ok := b.(string); ok {
			return x + y
		}
	}
	ps := append(append([]SPart{}, partsOf(a)...), partsOf(b)...)
	return in.mkStr(ps)
}

// bytesOfStr returns the byte terms of a string without atoms.
func (in *Interp) bytesOfStr(v Value) ([]*sym.Term, bool) {
	switch v := v.(type) {
	case string:
		out := make([]*sym.Term, len(v))
		for i := 0; i < len(v); i++ {
			out[i] = in.byteC(v[i])
		}
		return out, true
	case *SStr:
		var out []*sym.Term
		for _, p := range v.P {
			switch {
			case p.A != nil:
				return nil, false
			case p.B != nil:
				out = append(out, p.B)
			default:
				for i := 0; i < len(p.Lit); i++ {
					out = append(out, in.byteC(p.Lit[i]))
				}
			}
		}
		return out, true
	}
	panic(fmt.Sprintf("bytesOfStr: %T", v))
}

func (in *Interp) strFromBytes(bs []*sym.Term) Value {
	allc := true
	for _, b := range bs {
		if !b.IsConst() {
			allc = false
			break
		}
	}
	if allc {
		buf := make([]byte, len(bs))
		for i, b := range bs {
			buf[i] = byte(b.C)
		}
		return string(buf)
	}
	ps := make([]SPart, 0, len(bs))
	for _, b := range bs {
		ps = append(ps, SPart{B: b})
	}
	return in.mkStr(ps)
}

func (in *Interp) byteC(b byte) *sym.Term {
	if in.byteConsts[b] == nil {
		in.byteConsts[b] = in.ctx.BVC(8, uint64(b))
	}
	return in.byteConsts[b]
}

// concretizeAtoms replaces every atom of s by its rendering under a model of
// the current path condition (a counted concretization).
func (in *Interp) concretizeAtoms(v Value, why string) Value {
	s, ok := v.(*SStr)
	if !ok {
		return v
	}
	ps := make([]SPart, 0, len(s.P))
	for _, p := range s.P {
		if p.A == nil {
			ps = append(ps, p)
			continue
		}
		if p.A.Kind == "int" {
			c := in.concretize(p.A.T, why)
			ps = append(ps, SPart{Lit: renderIntAtom(p.A, c.C)})
			continue
		}
		in.unsupported("opaque formatted text must be inspected (" + why + ")")
	}
	return in.mkStr(ps)
}

// strLen returns the length as a 64-bit term.
func (in *Interp) strLen(v Value) *sym.Term {
	switch v := v.(type) {
	case string:
		return in.intC(int64(len(v)))
	case *SStr:
		n := 0
		for _, p := range v.P {
			switch {
			case p.A != nil:
				return in.strLen(in.concretizeAtoms(v, "len of formatted number"))
			case p.B != nil:
				n++
			default:
				n += len(p.Lit)
			}
		}
		return in.intC(int64(n))
	}
	panic(fmt.Sprintf("strLen: %T", v))
}

func (in *Interp) intC(v int64) *sym.Term { return in.ctx.BVC(64, uint64(v)) }

// strEq returns the term "a == b".
func (in *Interp) strEq(a, b Value) *sym.Term {
	c := in.ctx
	if x, ok := a.(string); ok {
		if y, ok := b.(string); ok {
			return c.BoolC(x == y)
		}
	}
	pa, pb := partsOf(a), partsOf(b)
	// fast path: no atoms -> bytewise
	if !hasAtoms(pa) && !hasAtoms(pb) {
		ba, _ := in.bytesOfStr(a)
		bb, _ := in.bytesOfStr(b)
		if len(ba) != len(bb) {
			return c.False()
		}
		r := c.True()
		for i := range ba {
			r = c.And(r, c.Eq(ba[i], bb[i]))
			if r.IsFalse() {
				return r
			}
		}
		return r
	}
	res, ok := in.strEqAtoms(pa, pb)
	if ok {
		return res
	}
	// fall back: concretize atoms of both
	return in.strEq(in.concretizeAtoms(a, "string comparison"), in.concretizeAtoms(b, "string comparison"))
}

func hasAtoms(ps []SPart) bool {
	for _, p := range ps {
		if p.A != nil {
			return true
		}
	}
	return false
}

// atomTerminated reports whether the part list rest (following an atom a)
// begins with something that cannot be part of a's rendering.
func atomTerminated(a *Atom, rest []SPart) bool {
	if a.Kind != "int" {
		return false
	}
	if len(rest) == 0 {
		return true
	}
	p := rest[0]
	if p.A != nil || p.B != nil {
		return false
	}
	return !a.alphabet(p.Lit[0])
}

func (in *Interp) strEqAtoms(pa, pb []SPart) (*sym.Term, bool) {
	c := in.ctx
	r := c.True()
	pa = append([]SPart{}, pa...)
	pb = append([]SPart{}, pb...)
	for len(pa) > 0 && len(pb) > 0 {
		x, y := pa[0], pb[0]
		switch {
		case x.A != nil && y.A != nil:
			if x.A.Kind == "opaque" || y.A.Kind == "opaque" {
				if x.A.Kind == y.A.Kind && x.A.Verb == y.A.Verb && len(x.A.Args) == len(y.A.Args) {
					same := true
					for i := range x.A.Args {
						if x.A.Args[i] != y.A.Args[i] {
							same = false
						}
					}
					if same {
						pa, pb = pa[1:], pb[1:]
						continue
					}
				}
				return nil, false
			}
			if !x.A.sameFormat(y.A) || !atomTerminated(x.A, pa[1:]) || !atomTerminated(y.A, pb[1:]) {
				return nil, false
			}
			r = c.And(r, c.Eq(x.A.T, y.A.T))
			pa, pb = pa[1:], pb[1:]
		case x.A != nil || y.A != nil:
			// atom vs literal text
			swap := y.A != nil
			if swap {
				x, y = y, x
				pa, pb = pb, pa
			}
			if x.A.Kind != "int" || y.B != nil || !atomTerminated(x.A, pa[1:]) {
				return nil, false
			}
			lit := y.Lit
			n := 0
			for n < len(lit) && x.A.alphabet(lit[n]) {
				n++
			}
			if n == len(lit) && len(pb) > 1 {
				return nil, false // run may continue into a symbolic part
			}
			run := lit[:n]
			var val uint64
			okp := false
			if x.A.Signed {
				if v, err := strconv.ParseInt(run, x.A.Base, x.A.T.Sort.W); err == nil && strconv.FormatInt(v, x.A.Base) == run {
					val, okp = uint64(v), true
				}
			} else {
				if v, err := strconv.ParseUint(run, x.A.Base, x.A.T.Sort.W); err == nil && strconv.FormatUint(v, x.A.Base) == run {
					val, okp = v, true
				}
			}
			if !okp {
				return c.False(), true
			}
			r = c.And(r, c.Eq(x.A.T, c.BVC(x.A.T.Sort.W, val)))
			pa = pa[1:]
			if n == len(lit) {
				pb = pb[1:]
			} else {
				pb[0] = SPart{Lit: lit[n:]}
			}
			if swap {
				pa, pb = pb, pa
			}
		case x.B != nil && y.B != nil:
			r = c.And(r, c.Eq(x.B, y.B))
			pa, pb = pa[1:], pb[1:]
		case x.B != nil:
			r = c.And(r, c.Eq(x.B, in.byteC(y.Lit[0])))
			pa = pa[1:]
			if len(y.Lit) == 1 {
				pb = pb[1:]
			} else {
				pb[0] = SPart{Lit: y.Lit[1:]}
			}
		case y.B != nil:
			r = c.And(r, c.Eq(y.B, in.byteC(x.Lit[0])))
			pb = pb[1:]
			if len(x.Lit) == 1 {
				pa = pa[1:]
			} else {
				pa[0] = SPart{Lit: x.Lit[1:]}
			}
		default:
			n := len(x.Lit)
			if len(y.Lit) < n {
				n = len(y.Lit)
			}
			if x.Lit[:n] != y.Lit[:n] {
				return c.False(), true
			}
			if n == len(x.Lit) {
				pa = pa[1:]
			} else {
				pa[0] = SPart{Lit: x.Lit[n:]}
			}
			if n == len(y.Lit) {
				pb = pb[1:]
			} else {
				pb[0] = SPart{Lit: y.Lit[n:]}
			}
		}
		if r.IsFalse() {
			return r, true
		}
	}
	if len(pa) == 0 && len(pb) == 0 {
		return r, true
	}
	// one side has leftover parts: unequal unless leftovers can be empty
	rest := pa
	if len(rest) == 0 {
		rest = pb
	}
	for _, p := range rest {
		if p.A == nil || p.A.Kind != "int" {
			// bytes and literals have length >= 1; int atoms too
		}
	}
	// every part has length >= 1 (int atoms render to >= 1 char)
	for _, p := range rest {
		if p.A != nil && p.A.Kind == "opaque" {
			return nil, false
		}
	}
	return c.False(), true
}

// strLess returns the term "a < b" (bytewise lexicographic).
func (in *Interp) strLess(a, b Value) *sym.Term {
	c := in.ctx
	if x, ok := a.(string); ok {
		if y, ok := b.(string); ok {
			return c.BoolC(x < y)
		}
	}
	a = in.concretizeAtoms(a, "string ordering")
	b = in.concretizeAtoms(b, "string ordering")
	ba, _ := in.bytesOfStr(a)
	bb, _ := in.bytesOfStr(b)
	// build from the end: less(i) = a[i]<b[i] || (a[i]==b[i] && less(i+1))
	n := len(ba)
	if len(bb) < n {
		n = len(bb)
	}
	r := c.BoolC(len(ba) < len(bb))
	for i := n - 1; i >= 0; i-- {
		r = c.Or(c.ULt(ba[i], bb[i]), c.And(c.Eq(ba[i], bb[i]), r))
	}
	return r
}

// strIndexByte returns s[i] for concrete i.
func (in *Interp) strByteAt(v Value, i int) *sym.Term {
	switch v := v.(type) {
	case string:
		return in.byteC(v[i])
	case *SStr:
		bs, ok := in.bytesOfStr(v)
		if !ok {
			bs, _ = in.bytesOfStr(in.concretizeAtoms(v, "indexing formatted number"))
		}
		return bs[i]
	}
	panic("strByteAt")
}

// strSlice returns s[lo:hi] for concrete bounds.
func (in *Interp) strSlice(v Value, lo, hi int) Value {
	switch v := v.(type) {
	case string:
		return v[lo:hi]
	case *SStr:
		if lo == 0 && hi == in.constLen(v) {
			return v
		}
		bs, ok := in.bytesOfStr(v)
		if !ok {
			// try part-aligned slicing
			if r, ok := in.slicePartsAligned(v, lo, hi); ok {
				return r
			}
			bs, _ = in.bytesOfStr(in.concretizeAtoms(v, "slicing formatted number"))
		}
		return in.strFromBytes(bs[lo:hi])
	}
	panic("strSlice")
}

func (in *Interp) constLen(v *SStr) int {
	n := 0
	for _, p := range v.P {
		switch {
		case p.A != nil:
			return -1
		case p.B != nil:
			n++
		default:
			n += len(p.Lit)
		}
	}
	return n
}

func (in *Interp) slicePartsAligned(v *SStr, lo, hi int) (Value, bool) {
	return nil, false
}
