// Package interp is a symbolic interpreter for go/ssa programs: scalars are
// SMT terms, branches on symbolic conditions fork (by re-execution), and
// implicit safety conditions become solver queries.
package interp

import (
	"fmt"
	"go/token"
	"go/types"
	"strings"

	"gosymx/sym"

	"golang.org/x/tools/go/ssa"
)

type continuation int

const (
	kNext continuation = iota
	kReturn
	kJump
)

// targetPanic is a panic of the interpreted program (recoverable by it).
type targetPanic struct {
	v   Value // the panic value (usually Iface)
	msg string
	pos string
	rt  bool // runtime error
}

// pathAbort ends the current path; it is never visible to the target.
type pathAbort struct {
	kind string // infeasible | violation | unsupported | budget | done
	msg  string
}

type deferred struct {
	fn    Value
	args  []Value
	instr *ssa.Defer
	tail  *deferred
}

type frame struct {
	in               *Interp
	g                *goroutine
	caller           *frame
	fn               *ssa.Function
	block, prevBlock *ssa.BasicBlock
	env              map[ssa.Value]Value
	locals           []Value
	defers           *deferred
	result           Value
	panicking        bool
	panic            interface{}
	phitemps         []Value
	callPos          token.Pos
}

func (fr *frame) get(key ssa.Value) Value {
	switch key := key.(type) {
	case nil:
		return nil
	case *ssa.Function:
		return key
	case *ssa.Builtin:
		return key
	case *ssa.Const:
		return fr.in.constValue(key)
	case *ssa.Global:
		return fr.in.globalAddr(key)
	}
	if r, ok := fr.env[key]; ok {
		return r
	}
	panic(fmt.Sprintf("get: no value for %T: %v in %s", key, key.Name(), fr.fn))
}

func (in *Interp) globalAddr(g *ssa.Global) *Value {
	if r, ok := in.globals[g]; ok {
		return r
	}
	// lazily created (package not initialised explicitly)
	cell := in.zero(deref(g.Type()))
	in.globals[g] = &cell
	return &cell
}

func deref(t types.Type) types.Type {
	if p, ok := t.Underlying().(*types.Pointer); ok {
		return p.Elem()
	}
	panic(fmt.Sprintf("deref: not a pointer: %v", t))
}

func (in *Interp) constValue(c *ssa.Const) Value {
	if v, ok := in.constCache[c]; ok {
		return v
	}
	v := in.constValue0(c)
	in.constCache[c] = v
	return v
}

func (fr *frame) pos(p token.Pos) string {
	if p == token.NoPos {
		return fr.fn.String()
	}
	return fr.in.prog.Fset.Position(p).String()
}

// rtPanic raises a target-level run-time panic.
func (fr *frame) rtPanic(pos token.Pos, msg string) {
	panic(targetPanic{msg: "runtime error: " + msg, pos: fr.pos(pos), rt: true})
}

func (fr *frame) runDefer(d *deferred) {
	var ok bool
	defer func() {
		if !ok {
			r := recover()
			if pa, isAbort := r.(pathAbort); isAbort {
				panic(pa)
			}
			if _, isT := r.(targetPanic); !isT {
				panic(r) // engine bug
			}
			fr.panicking = true
			fr.panic = r
		}
	}()
	fr.in.call(fr, d.instr.Pos(), d.fn, d.args)
	ok = true
}

func (fr *frame) runDefers() {
	for d := fr.defers; d != nil; d = d.tail {
		fr.runDefer(d)
	}
	fr.defers = nil
	if fr.panicking {
		panic(fr.panic)
	}
}

func (in *Interp) lookupMethod(typ types.Type, meth *types.Func) *ssa.Function {
	return in.prog.LookupMethod(typ, meth.Pkg(), meth.Name())
}

func (fr *frame) visitInstr(instr ssa.Instruction) continuation {
	in := fr.in
	switch instr := instr.(type) {
	case *ssa.DebugRef:

	case *ssa.UnOp:
		fr.env[instr] = fr.unop(instr, fr.get(instr.X))

	case *ssa.BinOp:
		if (instr.Op == token.SHL || instr.Op == token.SHR) && isSigned(instr.Y.Type()) {
			y := fr.get(instr.Y).(*sym.Term)
			if !in.branchObl(in.ctx.SLe(in.ctx.BVC(y.Sort.W, 0), y), fr, instr.Pos()) {
				fr.rtPanic(instr.Pos(), "negative shift amount")
			}
		}
		fr.env[instr] = fr.binop(instr.Op, instr.X.Type(), fr.get(instr.X), fr.get(instr.Y), instr.Pos())

	case *ssa.Call:
		fn, args := fr.prepareCall(&instr.Call, instr.Pos())
		fr.env[instr] = in.call(fr, instr.Pos(), fn, args)

	case *ssa.ChangeInterface:
		fr.env[instr] = fr.get(instr.X)

	case *ssa.ChangeType:
		fr.env[instr] = fr.get(instr.X)

	case *ssa.Convert:
		fr.env[instr] = fr.conv(instr.Type(), instr.X.Type(), fr.get(instr.X))

	case *ssa.SliceToArrayPointer:
		x := fr.get(instr.X).([]Value)
		n := instr.Type().Underlying().(*types.Pointer).Elem().Underlying().(*types.Array).Len()
		if int64(len(x)) < n {
			fr.rtPanic(instr.Pos(), "cannot convert slice to array pointer: length too short")
		}
		if x == nil {
			fr.env[instr] = (*Value)(nil)
		} else {
			var v Value = Array(x[:n:n])
			fr.env[instr] = &v
		}

	case *ssa.MakeInterface:
		fr.env[instr] = Iface{T: instr.X.Type(), V: fr.get(instr.X)}

	case *ssa.Extract:
		fr.env[instr] = fr.get(instr.Tuple).(Tuple)[instr.Index]

	case *ssa.Slice:
		fr.env[instr] = fr.slice(instr, fr.get(instr.X), fr.get(instr.Low), fr.get(instr.High), fr.get(instr.Max))

	case *ssa.Return:
		switch len(instr.Results) {
		case 0:
		case 1:
			fr.result = fr.get(instr.Results[0])
		default:
			res := make(Tuple, 0, len(instr.Results))
			for _, r := range instr.Results {
				res = append(res, fr.get(r))
			}
			fr.result = res
		}
		fr.block = nil
		return kReturn

	case *ssa.RunDefers:
		fr.runDefers()

	case *ssa.Panic:
		v := fr.get(instr.X)
		panic(targetPanic{v: v, msg: in.panicString(v), pos: fr.pos(instr.Pos())})

	case *ssa.Send:
		in.chanSend(fr, fr.get(instr.Chan).(*Chan), fr.get(instr.X))

	case *ssa.Store:
		addr := fr.get(instr.Addr).(*Value)
		if addr == nil {
			fr.rtPanic(instr.Pos(), "invalid memory address or nil pointer dereference")
		}
		in.store(fr, addr, fr.get(instr.Val), instr.Pos())

	case *ssa.If:
		cond := fr.get(instr.Cond).(*sym.Term)
		succ := 1
		if in.branch(cond, fr, instr.Pos()) {
			succ = 0
		}
		fr.prevBlock, fr.block = fr.block, fr.block.Succs[succ]
		return kJump

	case *ssa.Jump:
		fr.prevBlock, fr.block = fr.block, fr.block.Succs[0]
		return kJump

	case *ssa.Defer:
		fn, args := fr.prepareCall(&instr.Call, instr.Pos())
		defers := &fr.defers
		if into := fr.get(instr.DeferStack); into != nil {
			defers = into.(**deferred)
		}
		*defers = &deferred{fn: fn, args: args, instr: instr, tail: *defers}

	case *ssa.Go:
		fn, args := fr.prepareCall(&instr.Call, instr.Pos())
		in.spawn(fr, instr, fn, args)

	case *ssa.MakeChan:
		n := in.concreteInt(fr.get(instr.Size), "channel capacity")
		in.chanSeq++
		fr.env[instr] = &Chan{cap: int(n), id: in.chanSeq}

	case *ssa.Alloc:
		var addr *Value
		if instr.Heap {
			addr = new(Value)
			fr.env[instr] = addr
		} else {
			addr = fr.env[instr].(*Value)
		}
		*addr = in.zero(deref(instr.Type()))

	case *ssa.MakeSlice:
		tElt := instr.Type().Underlying().(*types.Slice).Elem()
		ln := in.forkInt(fr, fr.get(instr.Len).(*sym.Term), "make: len", instr.Pos())
		cp := in.forkInt(fr, fr.get(instr.Cap).(*sym.Term), "make: cap", instr.Pos())
		if ln < 0 || cp < ln {
			fr.rtPanic(instr.Pos(), "makeslice: len out of range")
		}
		if cp > int64(in.cfg.MaxAlloc) {
			in.abort("budget", fmt.Sprintf("allocation of %d elements exceeds bound at %s", cp, fr.pos(instr.Pos())))
		}
		s := make([]Value, cp)
		z := in.zero(tElt)
		for i := range s {
			s[i] = copyVal(z)
		}
		fr.env[instr] = s[:ln]

	case *ssa.MakeMap:
		fr.env[instr] = in.newMap(instr.Type().Underlying().(*types.Map).Key())

	case *ssa.Range:
		fr.env[instr] = in.rangeIter(fr, fr.get(instr.X), instr.X.Type())

	case *ssa.Next:
		fr.env[instr] = fr.get(instr.Iter).(iter).next(fr)

	case *ssa.FieldAddr:
		p := fr.get(instr.X).(*Value)
		if p == nil {
			fr.rtPanic(instr.Pos(), "invalid memory address or nil pointer dereference")
		}
		fr.env[instr] = &(*p).(Struct)[instr.Field]

	case *ssa.Field:
		fr.env[instr] = fr.get(instr.X).(Struct)[instr.Field]

	case *ssa.IndexAddr:
		x := fr.get(instr.X)
		idx := fr.get(instr.Index).(*sym.Term)
		switch x := x.(type) {
		case []Value:
			i := fr.indexCheck(idx, instr.Index.Type(), len(x), instr.Pos())
			fr.env[instr] = &x[i]
		case *Value:
			if x == nil {
				fr.rtPanic(instr.Pos(), "invalid memory address or nil pointer dereference")
			}
			a := (*x).(Array)
			i := fr.indexCheck(idx, instr.Index.Type(), len(a), instr.Pos())
			fr.env[instr] = &a[i]
		default:
			panic(fmt.Sprintf("unexpected x type in IndexAddr: %T", x))
		}

	case *ssa.Index:
		x := fr.get(instr.X)
		idx := fr.get(instr.Index).(*sym.Term)
		switch x := x.(type) {
		case Array:
			fr.env[instr] = fr.indexRead([]Value(x), idx, instr.Index.Type(), instr.Pos())
		case string, *SStr:
			fr.env[instr] = fr.strIndex(x, idx, instr.Index.Type(), instr.Pos())
		default:
			panic(fmt.Sprintf("unexpected x type in Index: %T", x))
		}

	case *ssa.Lookup:
		fr.env[instr] = fr.lookup(instr, fr.get(instr.X), fr.get(instr.Index))

	case *ssa.MapUpdate:
		m := fr.get(instr.Map).(*Map)
		if m == nil {
			panic(targetPanic{msg: "assignment to entry in nil map", pos: fr.pos(instr.Pos()), rt: true})
		}
		in.mapInsert(fr, m, fr.get(instr.Key), fr.get(instr.Value))

	case *ssa.TypeAssert:
		fr.env[instr] = fr.typeAssert(instr, fr.get(instr.X).(Iface))

	case *ssa.MakeClosure:
		var bindings []Value
		for _, binding := range instr.Bindings {
			bindings = append(bindings, fr.get(binding))
		}
		fr.env[instr] = &Closure{instr.Fn.(*ssa.Function), bindings}

	case *ssa.Phi:
		panic("unreachable: phi")

	case *ssa.Select:
		fr.env[instr] = in.doSelect(fr, instr)

	default:
		panic(fmt.Sprintf("unexpected instruction: %T", instr))
	}
	return kNext
}

func (fr *frame) prepareCall(call *ssa.CallCommon, pos token.Pos) (fn Value, args []Value) {
	v := fr.get(call.Value)
	if call.Method == nil {
		fn = v
	} else {
		recv := v.(Iface)
		if recv.T == nil {
			fr.rtPanic(pos, "invalid memory address or nil pointer dereference (method "+call.Method.Name()+" invoked on nil interface)")
		}
		if nf := fr.in.nativeMethod(recv, call.Method); nf != nil {
			fn = nf
		} else if f := fr.in.lookupMethod(recv.T, call.Method); f == nil {
			panic(fmt.Sprintf("method set for dynamic type %v does not contain %s", recv.T, call.Method))
		} else {
			fn = f
		}
		args = append(args, recv.V)
	}
	for _, arg := range call.Args {
		args = append(args, fr.get(arg))
	}
	return
}

// call interprets a call to fn with args.
func (in *Interp) call(caller *frame, callpos token.Pos, fn Value, args []Value) Value {
	if callpos.IsValid() {
		in.lastCallPos = callpos
	}
	switch fn := fn.(type) {
	case *ssa.Function:
		if fn == nil {
			caller.rtPanic(callpos, "invalid memory address or nil pointer dereference (call of nil func)")
		}
		return in.callSSA(caller, callpos, fn, args, nil)
	case *Closure:
		return in.callSSA(caller, callpos, fn.Fn, args, fn.Env)
	case *ssa.Builtin:
		return in.callBuiltin(caller, callpos, fn, args)
	case *NativeFunc:
		return fn.Call(in, caller, callpos, args)
	}
	panic(fmt.Sprintf("cannot call %T", fn))
}

func (in *Interp) callSSA(caller *frame, callpos token.Pos, fn *ssa.Function, args []Value, env []Value) Value {
	fr := &frame{in: in, caller: caller, fn: fn, callPos: callpos}
	if caller != nil {
		fr.g = caller.g
	} else {
		fr.g = in.curG
	}
	in.depth++
	if in.depth > in.cfg.MaxCallDepth {
		in.abort("budget", "call depth exceeded in "+fn.String())
	}
	defer func() { in.depth-- }()

	if fn.Parent() == nil {
		if h := in.hookFor(fn); h != nil {
			return h(fr, args)
		}
	}
	if in.cfg.TraceCalls {
		fmt.Fprintf(in.cfg.TraceOut, "%*scall %s\n", in.depth, "", fn)
	}
	return in.runBody(fr, args, env)
}

func (fr *frame) run() {
	defer func() {
		if fr.block == nil {
			return // normal return
		}
		r := recover()
		if r == nil {
			return
		}
		if _, ok := r.(targetPanic); !ok {
			panic(r) // pathAbort or engine bug: propagate untouched
		}
		fr.panicking = true
		fr.panic = r
		fr.runDefers()
		// recovered
		fr.block = fr.fn.Recover
		if fr.block == nil {
			// function without named results: return zero values
			fr.result = fr.in.zeroResults(fr.fn)
		}
	}()

	in := fr.in
	for {
		nonPhis := fr.executePhis()
		for _, instr := range nonPhis {
			in.steps++
			if in.steps > in.cfg.MaxSteps {
				in.abort("budget", fmt.Sprintf("step budget %d exceeded in %s", in.cfg.MaxSteps, fr.fn))
			}
			if in.cfg.TraceInstr {
				if v, ok := instr.(ssa.Value); ok {
					fmt.Fprintf(in.cfg.TraceOut, "\t%s = %s\n", v.Name(), instr)
				} else {
					fmt.Fprintf(in.cfg.TraceOut, "\t%s\n", instr)
				}
			}
			if fr.visitInstr(instr) == kReturn {
				return
			}
		}
	}
}

func (in *Interp) zeroResults(fn *ssa.Function) Value {
	res := fn.Signature.Results()
	switch res.Len() {
	case 0:
		return nil
	case 1:
		return in.zero(res.At(0).Type())
	}
	t := make(Tuple, res.Len())
	for i := range t {
		t[i] = in.zero(res.At(i).Type())
	}
	return t
}

func (fr *frame) executePhis() []ssa.Instruction {
	firstNonPhi := -1
	for i, instr := range fr.block.Instrs {
		if _, ok := instr.(*ssa.Phi); !ok {
			firstNonPhi = i
			break
		}
	}
	nonPhis := fr.block.Instrs[firstNonPhi:]
	if firstNonPhi > 0 {
		phis := fr.block.Instrs[:firstNonPhi]
		predIndex := -1
		for i, p := range fr.block.Preds {
			if p == fr.prevBlock {
				predIndex = i
				break
			}
		}
		fr.phitemps = fr.phitemps[:0]
		for _, phi := range phis {
			phi := phi.(*ssa.Phi)
			fr.phitemps = append(fr.phitemps, fr.get(phi.Edges[predIndex]))
		}
		for i, phi := range phis {
			fr.env[phi.(*ssa.Phi)] = fr.phitemps[i]
		}
	}
	return nonPhis
}

func (in *Interp) doRecover(caller *frame) Value {
	if caller != nil && !caller.panicking && caller.caller != nil && caller.caller.panicking {
		caller.caller.panicking = false
		p := caller.caller.panic
		caller.caller.panic = nil
		switch p := p.(type) {
		case targetPanic:
			if p.v != nil {
				return p.v
			}
			return Iface{T: in.runtimeErrorType(), V: p.msg}
		default:
			panic(fmt.Sprintf("unexpected panic type %T in target call to recover()", p))
		}
	}
	return Iface{}
}

// runtimeErrorType is a stand-in dynamic type for run-time errors: a named
// string type with an Error method is not available without loading package
// runtime's SSA, so errors.errorString's pointer type is not used either; we
// use the predeclared string type wrapped so that fmt prints the message.
func (in *Interp) runtimeErrorType() types.Type {
	return in.rtErrType
}

func (in *Interp) panicString(v Value) string {
	defer func() { recover() }()
	return in.debugString(v)
}

func (in *Interp) debugString(v Value) string {
	switch v := v.(type) {
	case Iface:
		if v.T == nil {
			return "nil"
		}
		// error or Stringer?
		if s, ok := in.tryErrorString(v); ok {
			return s
		}
		return in.debugString(v.V)
	case *sym.Term:
		return v.String()
	case string:
		return v
	case *SStr:
		return v.String()
	case Struct:
		var parts []string
		for _, e := range v {
			parts = append(parts, in.debugString(e))
		}
		return "{" + strings.Join(parts, " ") + "}"
	case *Value:
		if v == nil {
			return "<nil>"
		}
		return fmt.Sprintf("&%s", in.debugString(*v))
	}
	return fmt.Sprintf("%T", v)
}
