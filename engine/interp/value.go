package interp

import (
	"fmt"
	"go/types"
	"reflect"
	"sort"
	"strings"

	"gosymx/sym"

	"golang.org/x/tools/go/ssa"
)

// Value is any interpreter value:
//
//	*sym.Term            bool, integers, floats (constant or symbolic)
//	string | *SStr       strings (concrete | with symbolic parts)
//	*Value               pointers (to a cell)
//	Struct, Array        aggregates (by value; copied on load/store)
//	[]Value              slices (share backing store)
//	*Map                 maps
//	Iface                non-empty-or-empty interfaces (T==nil: nil interface)
//	*ssa.Function, *Closure, *ssa.Builtin, *Bound   functions
//	Tuple                multiple results
//	*Chan                channels
//	*Native              opaque native (host) object
//	nil                  nil pointer-ish zero for map/func/chan is typed below
type Value = interface{}

type Struct []Value
type Array []Value
type Tuple []Value

type Iface struct {
	T types.Type
	V Value
}

type Closure struct {
	Fn  *ssa.Function
	Env []Value
}

// Native wraps a host Go value (e.g. *regexp.Regexp).
type Native struct {
	V reflect.Value
}

// SymRegexp is a symbolic regular expression: MatchString on a concrete
// string is a memoised fresh boolean.
type SymRegexp struct {
	Name string
}

type Chan struct {
	buf    []Value
	cap    int
	closed bool
	id     int
	sendVC vclock   // clock of the close
	msgVC  []vclock // clock of each buffered message's send
}

// ---------- zero values ----------

func (in *Interp) zero(t types.Type) Value {
	switch t := t.(type) {
	case *types.Basic:
		if t.Kind() == types.UntypedNil {
			panic("untyped nil has no zero value")
		}
		if t.Info()&types.IsUntyped != 0 {
			t = types.Default(t).(*types.Basic)
		}
		switch {
		case t.Kind() == types.Bool:
			return in.ctx.False()
		case t.Info()&types.IsInteger != 0:
			return in.ctx.BVC(in.width(t), 0)
		case t.Kind() == types.Float64:
			return in.ctx.F64C(0)
		case t.Kind() == types.Float32:
			return in.ctx.F32C(0)
		case t.Kind() == types.String:
			return ""
		case t.Kind() == types.UnsafePointer:
			return (*Value)(nil)
		}
		panic(fmt.Sprintf("zero: unsupported basic %v", t))
	case *types.Pointer:
		return (*Value)(nil)
	case *types.Array:
		a := make(Array, t.Len())
		for i := range a {
			a[i] = in.zero(t.Elem())
		}
		return a
	case *types.Named:
		return in.zero(t.Underlying())
	case *types.Alias:
		return in.zero(types.Unalias(t))
	case *types.Interface:
		return Iface{}
	case *types.Slice:
		return []Value(nil)
	case *types.Struct:
		s := make(Struct, t.NumFields())
		for i := range s {
			s[i] = in.zero(t.Field(i).Type())
		}
		return s
	case *types.Tuple:
		if t.Len() == 1 {
			return in.zero(t.At(0).Type())
		}
		s := make(Tuple, t.Len())
		for i := range s {
			s[i] = in.zero(t.At(i).Type())
		}
		return s
	case *types.Chan:
		return (*Chan)(nil)
	case *types.Map:
		return (*Map)(nil)
	case *types.Signature:
		return (*ssa.Function)(nil)
	case *types.TypeParam:
		panic("zero of type parameter")
	}
	panic(fmt.Sprintf("zero: unexpected type %T %v", t, t))
}

func (in *Interp) width(t *types.Basic) int {
	switch t.Kind() {
	case types.Int8, types.Uint8:
		return 8
	case types.Int16, types.Uint16:
		return 16
	case types.Int32, types.Uint32:
		return 32
	case types.Bool:
		return 0
	}
	return 64
}

func isSigned(t types.Type) bool {
	b, ok := t.Underlying().(*types.Basic)
	if !ok {
		return false
	}
	return b.Info()&types.IsInteger != 0 && b.Info()&types.IsUnsigned == 0
}

// copyVal makes a deep copy of aggregates (value semantics).
func copyVal(v Value) Value {
	switch v := v.(type) {
	case Struct:
		n := make(Struct, len(v))
		for i, e := range v {
			n[i] = copyVal(e)
		}
		return n
	case Array:
		n := make(Array, len(v))
		for i, e := range v {
			n[i] = copyVal(e)
		}
		return n
	case Tuple:
		// tuples are immutable
		return v
	}
	return v
}

// ---------- maps ----------

// Map is an insertion-ordered association list with an index for
// fully-concrete keys.
type Map struct {
	keyT    types.Type
	entries []*mapEntry
	index   map[string]*mapEntry // concrete-key canonical form -> entry
	nsym    int                  // number of live entries with symbolic keys
	live    int
	id      int
}

type mapEntry struct {
	key     Value
	val     Value
	ckey    string // canonical form if concrete
	conc    bool
	deleted bool
}

func (in *Interp) newMap(keyT types.Type) *Map {
	in.mapSeq++
	return &Map{keyT: keyT, index: map[string]*mapEntry{}, id: in.mapSeq}
}

func (m *Map) Len() int {
	if m == nil {
		return 0
	}
	return m.live
}

// canon returns a canonical string for a fully-concrete comparable value.
func canon(v Value, sb *strings.Builder) bool {
	switch v := v.(type) {
	case *sym.Term:
		if !v.IsConst() {
			return false
		}
		fmt.Fprintf(sb, "%d.%d:%x;", v.Sort.K, v.Sort.W, v.C)
		return true
	case string:
		fmt.Fprintf(sb, "s%d:%s;", len(v), v)
		return true
	case *SStr:
		return false
	case *Value:
		fmt.Fprintf(sb, "p%p;", v)
		return true
	case Struct:
		sb.WriteString("{")
		for _, e := range v {
			if !canon(e, sb) {
				return false
			}
		}
		sb.WriteString("}")
		return true
	case Array:
		sb.WriteString("[")
		for _, e := range v {
			if !canon(e, sb) {
				return false
			}
		}
		sb.WriteString("]")
		return true
	case Iface:
		if v.T == nil {
			sb.WriteString("nil;")
			return true
		}
		fmt.Fprintf(sb, "i<%s>", v.T.String())
		return canon(v.V, sb)
	case *Native:
		if v == nil {
			sb.WriteString("N0;")
			return true
		}
		if v.V.Kind() == reflect.Ptr {
			fmt.Fprintf(sb, "N%x;", v.V.Pointer())
			return true
		}
		fmt.Fprintf(sb, "N%v;", v.V.Interface())
		return true
	case *Map:
		fmt.Fprintf(sb, "m%p;", v)
		return true
	case *Chan:
		fmt.Fprintf(sb, "c%p;", v)
		return true
	case *ssa.Function:
		fmt.Fprintf(sb, "f%p;", v)
		return true
	case *SymRegexp:
		fmt.Fprintf(sb, "R%p;", v)
		return true
	case nil:
		sb.WriteString("<nil>;")
		return true
	}
	panic(fmt.Sprintf("canon: unhashable %T", v))
}

// sortedKeysForDebug is used by diagnostics only.
func sortedKeysForDebug(m map[string]*mapEntry) []string {
	var ks []string
	for k := range m {
		ks = append(ks, k)
	}
	sort.Strings(ks)
	return ks
}
