package interp

import (
	"fmt"
	"go/token"
	"go/types"
	"io"
	"os"
	"sort"
	"strings"
	"time"

	"gosymx/sym"

	"golang.org/x/tools/go/ssa"
)

type Config struct {
	MaxSteps     int // instructions per path
	MaxDecisions int // decisions per path
	MaxCallDepth int
	MaxAlloc     int
	MaxPaths     int // per run (0 = unlimited)
	MaxViolations int
	SolverKind   string
	SolverTimeoutMs int
	MapOrder     string // canonical | reverse
	TraceCalls   bool
	TraceInstr   bool
	TraceOut     io.Writer
	Concrete     sym.Model // if non-nil: all v* inputs are bound to these constants
	ConcreteChoices map[string]int
	PanicsAreViolations bool
	Deadline     time.Time
	Bounds       map[string]int
	Progress     io.Writer
	PortfolioS   int // seconds for the one-shot multi-solver fallback on unknown (0 = off)
}

func DefaultConfig() *Config {
	return &Config{MaxSteps: 2_000_000, MaxDecisions: 400, MaxCallDepth: 300, MaxAlloc: 1 << 16,
		SolverKind: "cvc5-int-oneshot", SolverTimeoutMs: 5000, PortfolioS: 60, MapOrder: "canonical", TraceOut: os.Stderr,
		PanicsAreViolations: true, MaxViolations: 8}
}

type dec struct {
	choice   bool // vChoice decision
	n, cur   int
	lim      int // alternatives < lim are explored here (others donated)
	cond     *sym.Term // positive condition (bool decisions)
	taken    bool
	forced   bool // the other side is infeasible / not to be explored
	otherDone bool
	aux      uint64
	altModel sym.Model
	imported bool
	label    string
	recordOnly bool
}

// DecSnap is a worker-independent snapshot of a decision (for job prefixes).
type DecSnap struct {
	Choice bool
	N, Cur int
	Taken  bool
	Aux    uint64
	RecordOnly bool
}

type InputRec struct {
	Name string
	Kind string // int64 uint64 bool byte choice ...
	W    int
	Term *sym.Term
	Choice int
	N    int
}

type Violation struct {
	Kind    string // assert | panic
	Label   string
	Msg     string
	Pos     string
	Model   sym.Model
	Choices map[string]int
	Inputs  []InputRec
	Trace   []string
	Sched   []SchedEvent
}

type PathResult struct {
	Kind string // ok | infeasible | violation | unsupported | budget | panic
	Msg  string
}

type Stats struct {
	Paths, PathsOK, PathsInfeasible, PathsUnsupported, PathsBudget, PathsPanic int
	Decisions, Forks int
	Asserts, AssertsProved, AssertsUnknown int
	Obligations int
	Concretizations int
	MaybeFeasible int
	PortfolioCalls, PortfolioDecided int
	Steps int64
	Reach map[string]int
	Notes map[string]int
	Unsupported map[string]int
	Budget map[string]int
	ConcWhy map[string]int
}

func newStats() *Stats {
	return &Stats{Reach: map[string]int{}, Notes: map[string]int{}, Unsupported: map[string]int{}, Budget: map[string]int{}, ConcWhy: map[string]int{}}
}

func (s *Stats) merge(o *Stats) {
	s.Paths += o.Paths
	s.PathsOK += o.PathsOK
	s.PathsInfeasible += o.PathsInfeasible
	s.PathsUnsupported += o.PathsUnsupported
	s.PathsBudget += o.PathsBudget
	s.PathsPanic += o.PathsPanic
	s.Decisions += o.Decisions
	s.Forks += o.Forks
	s.Asserts += o.Asserts
	s.AssertsProved += o.AssertsProved
	s.AssertsUnknown += o.AssertsUnknown
	s.Obligations += o.Obligations
	s.Concretizations += o.Concretizations
	s.MaybeFeasible += o.MaybeFeasible
	s.PortfolioCalls += o.PortfolioCalls
	s.PortfolioDecided += o.PortfolioDecided
	s.Steps += o.Steps
	for k, v := range o.Reach {
		s.Reach[k] += v
	}
	for k, v := range o.Notes {
		s.Notes[k] += v
	}
	for k, v := range o.Unsupported {
		s.Unsupported[k] += v
	}
	for k, v := range o.Budget {
		s.Budget[k] += v
	}
	for k, v := range o.ConcWhy {
		s.ConcWhy[k] += v
	}
}

// PathSample is a completed path with a model, for native cross-validation.
type PathSample struct {
	Model   sym.Model
	Choices map[string]int
	Inputs  []InputRec
	Observed []string // rendered observations under the model
	Outcome string
}

type Interp struct {
	prog   *ssa.Program
	ctx    *sym.Ctx
	solver *sym.Solver
	cfg    *Config
	shared *Shared

	globals    map[*ssa.Global]*Value
	stdGlobals map[*ssa.Global]*Value
	constCache map[*ssa.Const]Value
	byteConsts [256]*sym.Term
	rtErrType  types.Type
	hooks      map[*ssa.Function]hookFn
	hookMiss   map[*ssa.Function]bool
	funcsSeen  map[*ssa.Function]bool
	elemPtrOwner map[*Value][]Value
	nativeCache map[string]Value

	// per-path state
	trace   []*dec
	pos     int
	pcN     int
	pcMaybe bool
	model   sym.Model
	steps   int
	depth   int
	mapSeq  int
	chanSeq int
	inputs  []InputRec
	choices map[string]int
	observed []Value
	pathNotes []string
	symRegexps map[string]*SymRegexp
	rxMemo  map[string]*sym.Term
	mon     *monitor
	curG    *goroutine
	sched   *scheduler
	fs      *fsModel
	violatedLabels map[string]bool
	pathViolations int

	Stats *Stats
	workerID int

	lazyErrT, nativeErrT, nativeObjT, rtypeT types.Type
	curFrame *frame
	env map[string]string
	mapOrderOverride string
	syncState map[*Value]*syncObj
	boundsUsed map[string]int
	known map[*sym.Term]bool
	schedMode string
	syncMaps    map[*Value]*Map
	schedLog    []SchedEvent
	handoffKind string
	lastCallPos token.Pos
}

type hookFn func(fr *frame, args []Value) Value

func (in *Interp) Ctx() *sym.Ctx { return in.ctx }

func (in *Interp) abort(kind, msg string) {
	panic(pathAbort{kind: kind, msg: msg})
}

func (in *Interp) unsupported(msg string) {
	panic(pathAbort{kind: "unsupported", msg: msg})
}

func (in *Interp) note(msg string) {
	in.Stats.Notes[msg]++
}

// ---------- path condition management ----------

// pushPC adds t to the path condition (solver stack shared with the previous path's prefix).
func (in *Interp) pushPC(t *sym.Term) {
	s := in.solver
	if in.pcN < s.Depth() {
		if s.Level(in.pcN) == t {
			in.pcN++
			return
		}
		s.PopTo(in.pcN)
	}
	s.Push(t)
	in.pcN++
}

func (in *Interp) syncSolver() {
	if in.pcN < in.solver.Depth() {
		in.solver.PopTo(in.pcN)
	}
}

// check runs the solver on pc ∧ extra; on Sat it returns the model.
func (in *Interp) check(extra ...*sym.Term) (sym.Result, sym.Model) {
	in.syncSolver()
	r := in.solver.Check(extra...)
	if r == sym.Unknown && in.cfg.PortfolioS > 0 {
		ts := append(append([]*sym.Term{}, in.solver.Levels()...), extra...)
		if d := os.Getenv("GOSYMX_HARDDIR"); d != "" {
			os.WriteFile(fmt.Sprintf("%s/hard-%d-%d.smt2", d, in.workerID, in.Stats.PortfolioCalls), []byte(sym.Script(ts, "")), 0o644)
		}
		pr, pm, _ := sym.Portfolio(ts, in.ctx.Vars, in.cfg.PortfolioS)
		in.Stats.PortfolioCalls++
		if pr == sym.Unknown {
			// second chance with four times the budget (a loaded machine, a hard query)
			pr, pm, _ = sym.Portfolio(ts, in.ctx.Vars, 4*in.cfg.PortfolioS)
		}
		if pr != sym.Unknown {
			in.Stats.PortfolioDecided++
			return pr, pm
		}
	}
	if r == sym.Sat {
		m, err := in.solver.Model(in.ctx.Vars)
		in.solver.Done()
		if err != nil {
			return sym.Unknown, nil
		}
		return r, m
	}
	return r, nil
}

func (in *Interp) evalModel(t *sym.Term) (uint64, bool) {
	if in.model == nil {
		return 0, false
	}
	return sym.Eval(t, in.model)
}

func (in *Interp) inReplay() bool { return in.pos < len(in.trace) }

// branch decides a symbolic condition, forking when both sides are feasible.
func (in *Interp) branch(cond *sym.Term, fr *frame, pos token.Pos) bool {
	return in.branchX(cond, 0, false, "")
}

// branchObl is branch for implicit safety conditions (true = safe).
func (in *Interp) branchObl(cond *sym.Term, fr *frame, pos token.Pos) bool {
	if !cond.IsConst() {
		in.Stats.Obligations++
	}
	return in.branchX(cond, 0, false, "obl")
}

func (in *Interp) branchX(cond *sym.Term, aux uint64, noAlt bool, label string) bool {
	if cond.IsConst() {
		return cond.IsTrue()
	}
	c := in.ctx
	if v, ok := in.known[cond]; ok && !noAlt && !strings.HasPrefix(label, "value:") {
		return v
	}
	if in.inReplay() {
		d := in.trace[in.pos]
		if d.choice || (!d.imported && d.cond != cond) {
			panic(fmt.Sprintf("engine: nondeterministic replay at decision %d: recorded %v, now %v", in.pos, d.cond, cond))
		}
		d.cond = cond
		in.pos++
		t := cond
		if !d.taken {
			t = c.Not(cond)
		}
		if (!d.forced || d.imported) && !d.recordOnly {
			in.pushPC(t)
		}
		if in.pos == len(in.trace) {
			in.model = d.altModel
			d.altModel = nil
		}
		in.setKnown(cond, d.taken)
		return d.taken
	}
	if len(in.trace) >= in.cfg.MaxDecisions {
		in.abort("budget", fmt.Sprintf("decision budget %d exceeded", in.cfg.MaxDecisions))
	}
	in.Stats.Decisions++
	const (
		unk = iota
		yes
		no
		maybe
	)
	tf, ff := unk, unk
	var mT, mF sym.Model
	if v, ok := in.evalModel(cond); ok {
		if v == 1 {
			tf, mT = yes, in.model
		} else {
			ff, mF = yes, in.model
		}
	}
	if tf == unk {
		r, m := in.check(cond)
		switch r {
		case sym.Sat:
			tf, mT = yes, m
		case sym.Unsat:
			tf = no
		default:
			tf = maybe
		}
	}
	if ff == unk {
		if tf == no && !in.pcMaybe {
			ff = yes // pc is satisfiable, so the other side must be
		} else if noAlt && tf != no {
			ff = no
		} else {
			r, m := in.check(c.Not(cond))
			switch r {
			case sym.Sat:
				ff, mF = yes, m
			case sym.Unsat:
				ff = no
			default:
				ff = maybe
			}
		}
	}
	if noAlt && tf != no {
		ff = no
	}
	if tf == no && ff == no {
		in.abort("infeasible", "both sides of a branch infeasible")
	}
	d := &dec{cond: cond, aux: aux, label: label}
	switch {
	case tf != no && ff != no:
		d.taken = true
		d.altModel = mF
		in.model = mT
		in.Stats.Forks++
		if tf == maybe || ff == maybe {
			in.Stats.MaybeFeasible++
			in.pcMaybe = true
		}
	case tf != no:
		d.taken, d.forced = true, true
		in.model = mT
		if tf == maybe {
			in.pcMaybe = true
			in.Stats.MaybeFeasible++
		}
	default:
		d.taken, d.forced = false, true
		in.model = mF
		if ff == maybe {
			in.pcMaybe = true
			in.Stats.MaybeFeasible++
		}
	}
	in.trace = append(in.trace, d)
	in.pos++
	in.setKnown(cond, d.taken)
	if !d.forced {
		t := cond
		if !d.taken {
			t = c.Not(cond)
		}
		in.pushPC(t)
		in.maybeDonate()
	}
	return d.taken
}

// setKnown records the truth value of cond on this path (and of its negation).
func (in *Interp) setKnown(cond *sym.Term, v bool) {
	in.known[cond] = v
	if cond.Op == sym.OpNot {
		in.known[cond.Args[0]] = !v
	} else {
		in.known[in.ctx.Not(cond)] = !v
	}
}

// choose is an enumerated n-way decision.
func (in *Interp) choose(name string, n int) int {
	if n <= 1 {
		return 0
	}
	if in.cfg.ConcreteChoices != nil {
		v := in.cfg.ConcreteChoices[name]
		if v < 0 || v >= n {
			v = 0
		}
		return v
	}
	if in.inReplay() {
		d := in.trace[in.pos]
		if !d.choice || d.n != n {
			panic(fmt.Sprintf("engine: nondeterministic replay at choice %q", name))
		}
		in.pos++
		if in.pos == len(in.trace) {
			in.model = d.altModel
			d.altModel = nil
		}
		return d.cur
	}
	if len(in.trace) >= in.cfg.MaxDecisions {
		in.abort("budget", fmt.Sprintf("decision budget %d exceeded", in.cfg.MaxDecisions))
	}
	d := &dec{choice: true, n: n, lim: n, cur: 0, label: name, altModel: in.model}
	in.trace = append(in.trace, d)
	in.pos++
	in.Stats.Forks++
	in.maybeDonate()
	return 0
}

// assume adds cond to the path condition; the path ends if it is infeasible.
func (in *Interp) assume(cond *sym.Term) {
	if cond.IsTrue() {
		return
	}
	if cond.IsFalse() {
		in.abort("infeasible", "assumption false")
	}
	if v, ok := in.known[cond]; ok {
		if v {
			return
		}
		in.abort("infeasible", "assumption contradicts an earlier decision")
	}
	in.setKnown(cond, true)
	if in.inReplay() {
		in.pushPC(cond)
		return
	}
	if v, ok := in.evalModel(cond); ok && v == 1 {
		in.pushPC(cond)
		return
	}
	r, m := in.check(cond)
	switch r {
	case sym.Unsat:
		in.abort("infeasible", "assumption infeasible")
	case sym.Sat:
		in.model = m
	default:
		in.model = nil
		in.pcMaybe = true
		in.Stats.MaybeFeasible++
	}
	in.pushPC(cond)
}

// mustBeFalse reports whether cond is infeasible under the path condition
// (a fork-free query; false also when unknown).
func (in *Interp) mustBeFalse(cond *sym.Term) bool {
	if cond.IsConst() {
		return cond.IsFalse()
	}
	if in.inReplay() {
		// decided on the first visit; the answer is recorded in the trace
		d := in.trace[in.pos]
		if !d.recordOnly || (!d.imported && d.cond != cond) {
			panic(fmt.Sprintf("engine: nondeterministic replay at query %d: recorded %v, now %v", in.pos, d.cond, cond))
		}
		d.cond = cond
		in.pos++
		if in.pos == len(in.trace) {
			in.model = d.altModel
			d.altModel = nil
		}
		return !d.taken
	}
	if v, ok := in.evalModel(cond); ok && v == 1 {
		// feasible: do not fork, just answer "not known to be false"; record as a
		// pseudo-decision so that replays take the same route
		return !in.branchRecordOnly(cond, true)
	}
	r, _ := in.check(cond)
	return !in.branchRecordOnly(cond, r != sym.Unsat)
}

// branchRecordOnly records a query outcome in the trace (no path-condition change).
func (in *Interp) branchRecordOnly(cond *sym.Term, val bool) bool {
	d := &dec{cond: cond, taken: val, forced: true, recordOnly: true}
	in.trace = append(in.trace, d)
	in.pos++
	return val
}

// addLemma adds a theory-valid fact to the path condition (no feasibility check).
func (in *Interp) addLemma(t *sym.Term, what string) {
	if t.IsTrue() {
		return
	}
	in.note("trusted lemma: " + what)
	in.pushPC(t)
}

func (in *Interp) assumeNote(cond *sym.Term, why string) {
	if cond.IsTrue() {
		return
	}
	in.note("assumed: " + why)
	in.assume(cond)
}

// currentModel returns a model of the path condition.
func (in *Interp) currentModel() sym.Model {
	if in.model != nil {
		return in.model
	}
	r, m := in.check()
	if r == sym.Sat {
		in.model = m
		return m
	}
	return nil
}

// modelValue returns a value t can take under the path condition.
func (in *Interp) modelValue(t *sym.Term) uint64 {
	m := in.currentModel()
	if m == nil {
		in.abort("unsupported", "no model available for concretization (solver unknown)")
	}
	v, _ := sym.Eval(t, m)
	return v
}

// forkInt enumerates the feasible values of t (one per path).
func (in *Interp) forkInt(fr *frame, t *sym.Term, what string, pos token.Pos) int64 {
	if t.IsConst() {
		return t.Int64()
	}
	c := in.ctx
	for n := 0; ; n++ {
		if n > 4096 {
			in.abort("budget", "forkInt: too many values for "+what)
		}
		var v uint64
		if in.inReplay() {
			v = in.trace[in.pos].aux
		} else {
			v = in.modelValue(t)
		}
		k := c.BVC(t.Sort.W, v)
		if in.branchX(c.Eq(t, k), v, false, "value:"+what) {
			return k.Int64()
		}
	}
}

// concretize pins t to one feasible value (counted; weakens a pass to that value).
func (in *Interp) concretize(t *sym.Term, why string) *sym.Term {
	if t.IsConst() {
		return t
	}
	c := in.ctx
	in.Stats.Concretizations++
	in.Stats.ConcWhy[why]++
	var v uint64
	if in.inReplay() {
		v = in.trace[in.pos].aux
	} else {
		v = in.modelValue(t)
	}
	k := c.BVC(t.Sort.W, v)
	if t.Sort.K == sym.KFP {
		k = c.FBits(c.BVC(t.Sort.W, v))
	}
	if !in.branchX(c.Eq(t, k), v, true, "concretize:"+why) {
		in.abort("infeasible", "concretize")
	}
	return k
}

// ---------- assertions ----------

func (in *Interp) assert(cond *sym.Term, label, msg string, fr *frame) {
	in.Stats.Asserts++
	if cond.IsTrue() {
		in.Stats.AssertsProved++
		return
	}
	c := in.ctx
	neg := c.Not(cond)
	var m sym.Model
	r := sym.Unknown
	if cond.IsFalse() {
		m = in.currentModel()
		if m != nil {
			r = sym.Sat
		}
	} else if v, ok := in.evalModel(cond); ok && v == 0 {
		r, m = sym.Sat, in.model
	} else {
		r, m = in.check(neg)
	}
	switch r {
	case sym.Unsat:
		in.Stats.AssertsProved++
		return
	case sym.Unknown:
		in.Stats.AssertsUnknown++
		in.Stats.Unsupported["solver unknown on assertion "+label]++
	case sym.Sat:
		in.reportViolation("assert", label, msg, fr, m)
	}
	if cond.IsFalse() {
		return // reported; nothing to assume, later assertions are still checked
	}
	in.assume(cond)
}

func (in *Interp) reportViolation(kind, label, msg string, fr *frame, m sym.Model) {
	v := &Violation{Kind: kind, Label: label, Msg: msg, Model: m, Choices: map[string]int{}}
	if fr != nil {
		v.Pos = fr.pos(fr.callPos)
	}
	for k, x := range in.choices {
		v.Choices[k] = x
	}
	v.Inputs = append(v.Inputs, in.inputs...)
	v.Sched = append(v.Sched, in.schedLog...)
	in.pathViolations++
	in.shared.addViolation(v)
}

// ---------- path driver ----------

func (in *Interp) resetPath() {
	in.pos = 0
	in.pcN = 0
	in.pcMaybe = false
	in.model = nil
	in.steps = 0
	in.depth = 0
	in.mapSeq = 0
	in.chanSeq = 0
	in.inputs = in.inputs[:0]
	in.choices = map[string]int{}
	in.observed = nil
	in.symRegexps = map[string]*SymRegexp{}
	in.rxMemo = map[string]*sym.Term{}
	in.mon = nil
	in.sched = nil
	in.fs = nil
	in.pathViolations = 0
	in.schedMode = ""
	in.schedLog = nil
	in.syncMaps = nil
	in.handoffKind = ""
	in.known = map[*sym.Term]bool{}
	in.mapOrderOverride = ""
	in.syncState = map[*Value]*syncObj{}
	in.elemPtrOwner = map[*Value][]Value{}
	in.globals = map[*ssa.Global]*Value{}
	for g, v := range in.stdGlobals {
		in.globals[g] = v
	}
}

// backtrack advances the trace to the next unexplored alternative.
func (in *Interp) backtrack() bool {
	for len(in.trace) > 0 {
		d := in.trace[len(in.trace)-1]
		if d.choice {
			if !d.imported && d.cur+1 < d.lim {
				d.cur++
				return true
			}
		} else if !d.forced && !d.otherDone && !d.imported {
			d.taken = !d.taken
			d.otherDone = true
			return true
		}
		in.trace = in.trace[:len(in.trace)-1]
	}
	return false
}

func (in *Interp) snapshotPrefix(n int) []DecSnap {
	out := make([]DecSnap, n)
	for i := 0; i < n; i++ {
		d := in.trace[i]
		out[i] = DecSnap{Choice: d.choice, N: d.n, Cur: d.cur, Taken: d.taken, Aux: d.aux, RecordOnly: d.recordOnly}
	}
	return out
}

func (in *Interp) loadPrefix(p []DecSnap) {
	in.trace = in.trace[:0]
	for _, s := range p {
		in.trace = append(in.trace, &dec{choice: s.Choice, n: s.N, cur: s.Cur, taken: s.Taken, aux: s.Aux, imported: true, forced: false, otherDone: true, recordOnly: s.RecordOnly})
	}
}

// maybeDonate hands the alternative of the newest decision to an idle worker.
func (in *Interp) maybeDonate() {
	sh := in.shared
	if sh == nil || !sh.wantsWork() {
		return
	}
	d := in.trace[len(in.trace)-1]
	if d.choice {
		// donate all remaining alternatives
		for k := d.cur + 1; k < d.lim; k++ {
			p := in.snapshotPrefix(len(in.trace))
			p[len(p)-1].Cur = k
			sh.push(p)
		}
		d.lim = d.cur + 1
		return
	}
	if d.forced || d.otherDone {
		return
	}
	p := in.snapshotPrefix(len(in.trace))
	p[len(p)-1].Taken = !d.taken
	d.otherDone = true
	d.altModel = nil
	sh.push(p)
}

// runPath executes entry once along the current trace.
func (in *Interp) runPath(entry func()) (res PathResult) {
	defer func() {
		in.Stats.Steps += int64(in.steps)
		r := recover()
		if r == nil {
			return
		}
		switch p := r.(type) {
		case pathAbort:
			res = PathResult{Kind: p.kind, Msg: p.msg}
		case targetPanic:
			res = PathResult{Kind: "panic", Msg: p.msg + " at " + p.pos}
		default:
			panic(r)
		}
	}()
	entry()
	return PathResult{Kind: "ok"}
}

func (in *Interp) recordPath(res PathResult) {
	st := in.Stats
	st.Paths++
	switch res.Kind {
	case "ok":
		st.PathsOK++
	case "infeasible":
		st.PathsInfeasible++
	case "violation":
		// already reported
	case "unsupported":
		st.PathsUnsupported++
		st.Unsupported[res.Msg]++
	case "budget":
		st.PathsBudget++
		st.Budget[res.Msg]++
	case "deadlock":
		st.PathsPanic++
		if m := in.currentModel(); m != nil {
			in.reportViolation("assert", "deadlock", "deadlock: "+res.Msg, nil, m)
		}
	case "panic":
		st.PathsPanic++
		if in.cfg.PanicsAreViolations {
			m := in.currentModel()
			if m == nil {
				st.Unsupported["solver unknown on panic path"]++
			} else {
				in.reportViolation("panic", "panic", res.Msg, nil, m)
			}
		}
	}
	if res.Kind == "ok" && in.pathViolations == 0 {
		in.shared.offerSample(in)
	}
}

func (in *Interp) describeInputs(m sym.Model) []string {
	var out []string
	for _, r := range in.inputs {
		if r.Kind == "choice" {
			out = append(out, fmt.Sprintf("%s=%d/%d", r.Name, r.Choice, r.N))
			continue
		}
		out = append(out, fmt.Sprintf("%s=%#x", r.Name, m[r.Name]))
	}
	sort.Strings(out)
	return out
}

var _ = strings.Join
