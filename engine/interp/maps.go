package interp

import (
	"go/types"
	"strings"

	"gosymx/sym"

	"golang.org/x/tools/go/ssa"
)

func canonKey(v Value) (string, bool) {
	var sb strings.Builder
	ok := canon(v, &sb)
	return sb.String(), ok
}

// mapFind locates the entry whose key equals key, forking on symbolic equality.
func (in *Interp) mapFind(fr *frame, m *Map, key Value) *mapEntry {
	if m == nil || m.live == 0 {
		return nil
	}
	ck, conc := canonKey(key)
	if conc {
		if e := m.index[ck]; e != nil {
			return e
		}
		if m.nsym == 0 {
			return nil
		}
		for _, e := range m.entries {
			if e.deleted || e.conc {
				continue
			}
			if in.branchX(in.eqVal(key, e.key), 0, false, "mapkey") {
				return e
			}
		}
		return nil
	}
	for _, e := range m.entries {
		if e.deleted {
			continue
		}
		if in.branchX(in.eqVal(key, e.key), 0, false, "mapkey") {
			return e
		}
	}
	return nil
}

func (in *Interp) mapInsert(fr *frame, m *Map, key, val Value) {
	if e := in.mapFind(fr, m, key); e != nil {
		e.val = copyVal(val)
		return
	}
	ck, conc := canonKey(key)
	e := &mapEntry{key: copyVal(key), val: copyVal(val), ckey: ck, conc: conc}
	m.entries = append(m.entries, e)
	if conc {
		m.index[ck] = e
	} else {
		m.nsym++
	}
	m.live++
}

func (in *Interp) mapDelete(fr *frame, m *Map, key Value) {
	e := in.mapFind(fr, m, key)
	if e == nil {
		return
	}
	e.deleted = true
	if e.conc {
		delete(m.index, e.ckey)
	} else {
		m.nsym--
	}
	m.live--
	// compact occasionally
	if len(m.entries) > 32 && m.live < len(m.entries)/2 {
		out := m.entries[:0:0]
		for _, x := range m.entries {
			if !x.deleted {
				out = append(out, x)
			}
		}
		m.entries = out
	}
}

func (in *Interp) mapClear(m *Map) {
	for _, e := range m.entries {
		e.deleted = true
	}
	m.entries = nil
	m.index = map[string]*mapEntry{}
	m.nsym, m.live = 0, 0
}

func (fr *frame) lookup(instr *ssa.Lookup, x, idx Value) Value {
	in := fr.in
	switch x := x.(type) {
	case *Map:
		var v Value
		ok := false
		if e := in.mapFind(fr, x, idx); e != nil {
			v, ok = copyVal(e.val), true
		} else {
			v = in.zero(instr.X.Type().Underlying().(*types.Map).Elem())
		}
		if instr.CommaOk {
			return Tuple{v, in.ctx.BoolC(ok)}
		}
		return v
	case string, *SStr:
		return fr.strIndex(x, idx.(*sym.Term), instr.Index.Type(), instr.Pos())
	}
	panic("lookup: unexpected collection")
}

type mapIter struct {
	in      *Interp
	m       *Map
	entries []*mapEntry
	i       int
	mode    string
}

func (in *Interp) newMapIter(fr *frame, m *Map) iter {
	it := &mapIter{in: in, m: m, mode: in.cfg.MapOrder}
	if in.mapOrderOverride != "" {
		it.mode = in.mapOrderOverride
	}
	if m != nil {
		for _, e := range m.entries {
			if !e.deleted {
				it.entries = append(it.entries, e)
			}
		}
	}
	if it.mode == "rotate" && len(it.entries) > 1 {
		h := len(it.entries) / 2
		it.entries = append(append([]*mapEntry{}, it.entries[h:]...), it.entries[:h]...)
	}
	if it.mode == "reverse" {
		for i, j := 0, len(it.entries)-1; i < j; i, j = i+1, j-1 {
			it.entries[i], it.entries[j] = it.entries[j], it.entries[i]
		}
	}
	return it
}

func (it *mapIter) next(fr *frame) Tuple {
	in := it.in
	for {
		if len(it.entries) == 0 {
			return Tuple{in.ctx.False(), nil, nil}
		}
		k := 0
		if it.mode == "perm" && len(it.entries) > 1 {
			k = in.choose("maporder", len(it.entries))
		}
		e := it.entries[k]
		it.entries = append(it.entries[:k:k], it.entries[k+1:]...)
		if e.deleted {
			continue
		}
		return Tuple{in.ctx.True(), copyVal(e.key), copyVal(e.val)}
	}
}
