package interp

import (
	"fmt"
	"go/token"
	"go/types"
	"reflect"
)

// Minimal model of package reflect: just what internal/driver/config.go uses
// (TypeOf/NumField/Field/Tag.Get/Kind, ValueOf/Elem/FieldByIndex/Addr/Interface).

type rtypeModel struct {
	t types.Type
}

type rvalueModel struct {
	addr *Value     // address of the value, if addressable
	val  Value      // the value, if not addressable
	t    types.Type // its type
}

func kindOf(t types.Type) reflect.Kind {
	switch u := t.Underlying().(type) {
	case *types.Basic:
		switch u.Kind() {
		case types.Bool:
			return reflect.Bool
		case types.Int:
			return reflect.Int
		case types.Int8:
			return reflect.Int8
		case types.Int16:
			return reflect.Int16
		case types.Int32:
			return reflect.Int32
		case types.Int64:
			return reflect.Int64
		case types.Uint:
			return reflect.Uint
		case types.Uint8:
			return reflect.Uint8
		case types.Uint16:
			return reflect.Uint16
		case types.Uint32:
			return reflect.Uint32
		case types.Uint64:
			return reflect.Uint64
		case types.Uintptr:
			return reflect.Uintptr
		case types.Float32:
			return reflect.Float32
		case types.Float64:
			return reflect.Float64
		case types.String:
			return reflect.String
		}
	case *types.Struct:
		return reflect.Struct
	case *types.Pointer:
		return reflect.Ptr
	case *types.Slice:
		return reflect.Slice
	case *types.Map:
		return reflect.Map
	case *types.Interface:
		return reflect.Interface
	case *types.Signature:
		return reflect.Func
	case *types.Array:
		return reflect.Array
	case *types.Chan:
		return reflect.Chan
	}
	return reflect.Invalid
}

func (in *Interp) rtypeIface(t types.Type) Iface {
	return Iface{T: in.rtypeT, V: &rtypeModel{t: t}}
}

func (in *Interp) rtypeMethod(rt *rtypeModel, name string) Value {
	return &NativeFunc{Name: "reflect.Type." + name, Fn: func(in *Interp, fr *frame, pos token.Pos, args []Value) Value {
		switch name {
		case "NumField":
			return in.intC(int64(rt.t.Underlying().(*types.Struct).NumFields()))
		case "Field":
			st := rt.t.Underlying().(*types.Struct)
			i := int(in.concreteInt(args[1], "reflect Field index"))
			f := st.Field(i)
			pkgPath := ""
			if !f.Exported() && f.Pkg() != nil {
				pkgPath = f.Pkg().Path()
			}
			// reflect.StructField{Name, PkgPath, Type, Tag, Offset, Index, Anonymous}
			return Struct{f.Name(), pkgPath, in.rtypeIface(f.Type()), st.Tag(i), in.intC(0), []Value{in.intC(int64(i))}, in.ctx.BoolC(f.Embedded())}
		case "Kind":
			return in.ctx.BVC(64, uint64(kindOf(rt.t)))
		case "String":
			return rt.t.String()
		case "Name":
			if n, ok := rt.t.(*types.Named); ok {
				return n.Obj().Name()
			}
			return ""
		case "Elem":
			switch u := rt.t.Underlying().(type) {
			case *types.Pointer:
				return in.rtypeIface(u.Elem())
			case *types.Slice:
				return in.rtypeIface(u.Elem())
			case *types.Map:
				return in.rtypeIface(u.Elem())
			}
		}
		in.unsupported("reflect.Type." + name + " is not modelled")
		return nil
	}}
}

func init() {
	reg("reflect.TypeOf", func(fr *frame, a []Value) Value {
		in := fr.in
		i := a[0].(Iface)
		if i.T == nil {
			return Iface{}
		}
		return in.rtypeIface(i.T)
	})
	reg("reflect.ValueOf", func(fr *frame, a []Value) Value {
		i := a[0].(Iface)
		return &rvalueModel{val: i.V, t: i.T}
	})
	reg("(reflect.Value).Elem", func(fr *frame, a []Value) Value {
		in := fr.in
		v := a[0].(*rvalueModel)
		x := v.val
		if v.addr != nil {
			x = *v.addr
		}
		switch u := v.t.Underlying().(type) {
		case *types.Pointer:
			p, _ := x.(*Value)
			if p == nil {
				in.unsupported("reflect Elem of nil pointer")
			}
			return &rvalueModel{addr: p, t: u.Elem()}
		case *types.Interface:
			i := x.(Iface)
			return &rvalueModel{val: i.V, t: i.T}
		}
		in.unsupported("reflect.Value.Elem on " + v.t.String())
		return nil
	})
	reg("(reflect.Value).FieldByIndex", func(fr *frame, a []Value) Value {
		in := fr.in
		v := a[0].(*rvalueModel)
		idx := a[1].([]Value)
		cur := v
		for _, ix := range idx {
			i := int(in.concreteInt(ix, "reflect field index"))
			st := cur.t.Underlying().(*types.Struct)
			if cur.addr != nil {
				s := (*cur.addr).(Struct)
				cur = &rvalueModel{addr: &s[i], t: st.Field(i).Type()}
			} else {
				cur = &rvalueModel{val: cur.val.(Struct)[i], t: st.Field(i).Type()}
			}
		}
		return cur
	})
	reg("(reflect.Value).Field", func(fr *frame, a []Value) Value {
		in := fr.in
		v := a[0].(*rvalueModel)
		i := int(in.concreteInt(a[1], "reflect field index"))
		st := v.t.Underlying().(*types.Struct)
		if v.addr != nil {
			s := (*v.addr).(Struct)
			return &rvalueModel{addr: &s[i], t: st.Field(i).Type()}
		}
		return &rvalueModel{val: v.val.(Struct)[i], t: st.Field(i).Type()}
	})
	reg("(reflect.Value).Addr", func(fr *frame, a []Value) Value {
		in := fr.in
		v := a[0].(*rvalueModel)
		if v.addr == nil {
			in.unsupported("reflect.Value.Addr of unaddressable value")
		}
		return &rvalueModel{val: v.addr, t: types.NewPointer(v.t)}
	})
	reg("(reflect.Value).Interface", func(fr *frame, a []Value) Value {
		v := a[0].(*rvalueModel)
		x := v.val
		if v.addr != nil {
			x = copyVal(*v.addr)
		}
		if _, isI := v.t.Underlying().(*types.Interface); isI {
			return x
		}
		return Iface{T: v.t, V: x}
	})
	reg("(reflect.Value).Kind", func(fr *frame, a []Value) Value {
		v := a[0].(*rvalueModel)
		return fr.in.ctx.BVC(64, uint64(kindOf(v.t)))
	})
	reg("(reflect.StructTag).Get", func(fr *frame, a []Value) Value {
		tag := fr.in.concreteString(a[0], "struct tag")
		key := fr.in.concreteString(a[1], "struct tag key")
		return reflect.StructTag(tag).Get(key)
	})
	reg("(reflect.StructTag).Lookup", func(fr *frame, a []Value) Value {
		tag := fr.in.concreteString(a[0], "struct tag")
		key := fr.in.concreteString(a[1], "struct tag key")
		v, ok := reflect.StructTag(tag).Lookup(key)
		return Tuple{v, fr.in.ctx.BoolC(ok)}
	})
	reg("(reflect.Kind).String", func(fr *frame, a []Value) Value {
		return reflect.Kind(fr.in.concreteInt(a[0], "reflect kind")).String()
	})
}

var _ = fmt.Sprint
