package interp

import (
	"go/token"
	"go/types"

	"gosymx/sym"
)

// syncObj is the engine-side state of a sync.Mutex / RWMutex / WaitGroup / Once,
// keyed by the address of the object.
type syncObj struct {
	locked  bool
	owner   int
	readers int
	count   int64
	done    bool
	running bool
	vc      vclock // happens-before clock released by the last Unlock/Done
}

func (in *Interp) syncOf(p Value) *syncObj {
	c := p.(*Value)
	if c == nil {
		panic(targetPanic{msg: "runtime error: invalid memory address or nil pointer dereference (nil sync object)", rt: true})
	}
	o := in.syncState[c]
	if o == nil {
		o = &syncObj{}
		in.syncState[c] = o
	}
	return o
}

func init() {
	lock := func(fr *frame, a []Value) Value {
		in := fr.in
		o := in.syncOf(a[0])
		in.schedPoint(fr, "lock")
		for o.locked || o.readers > 0 {
			in.blockOn(fr, "mutex", func() bool { return !o.locked && o.readers == 0 })
		}
		o.locked = true
		in.hbAcquire(fr, o)
		return nil
	}
	unlock := func(fr *frame, a []Value) Value {
		in := fr.in
		o := in.syncOf(a[0])
		if !o.locked {
			panic(targetPanic{msg: "fatal error: sync: unlock of unlocked mutex", rt: true})
		}
		in.hbRelease(fr, o)
		o.locked = false
		return nil
	}
	reg("(*sync.Mutex).Lock", lock)
	reg("(*sync.Mutex).Unlock", unlock)
	reg("(*sync.RWMutex).Lock", lock)
	reg("(*sync.RWMutex).Unlock", unlock)
	reg("(*sync.Mutex).TryLock", func(fr *frame, a []Value) Value {
		in := fr.in
		o := in.syncOf(a[0])
		if o.locked {
			return in.ctx.False()
		}
		o.locked = true
		in.hbAcquire(fr, o)
		return in.ctx.True()
	})
	reg("(*sync.RWMutex).RLock", func(fr *frame, a []Value) Value {
		in := fr.in
		o := in.syncOf(a[0])
		in.schedPoint(fr, "rlock")
		for o.locked {
			in.blockOn(fr, "rwmutex", func() bool { return !o.locked })
		}
		o.readers++
		in.hbAcquire(fr, o)
		return nil
	})
	reg("(*sync.RWMutex).RUnlock", func(fr *frame, a []Value) Value {
		in := fr.in
		o := in.syncOf(a[0])
		in.hbRelease(fr, o)
		o.readers--
		return nil
	})
	reg("(*sync.WaitGroup).Add", func(fr *frame, a []Value) Value {
		in := fr.in
		o := in.syncOf(a[0])
		n := in.concreteInt(a[1], "WaitGroup.Add")
		if n < 0 {
			in.hbRelease(fr, o)
		}
		o.count += n
		if o.count < 0 {
			panic(targetPanic{msg: "sync: negative WaitGroup counter", rt: true})
		}
		return nil
	})
	reg("(*sync.WaitGroup).Done", func(fr *frame, a []Value) Value {
		in := fr.in
		o := in.syncOf(a[0])
		in.hbRelease(fr, o)
		o.count--
		if o.count < 0 {
			panic(targetPanic{msg: "sync: negative WaitGroup counter", rt: true})
		}
		return nil
	})
	reg("(*sync.WaitGroup).Wait", func(fr *frame, a []Value) Value {
		in := fr.in
		o := in.syncOf(a[0])
		in.schedPoint(fr, "wg.wait")
		for o.count > 0 {
			in.blockOn(fr, "waitgroup", func() bool { return o.count == 0 })
		}
		in.hbAcquire(fr, o)
		return nil
	})
	reg("(*sync.Once).Do", func(fr *frame, a []Value) Value {
		in := fr.in
		o := in.syncOf(a[0])
		in.schedPoint(fr, "once")
		for o.running {
			in.blockOn(fr, "once", func() bool { return !o.running })
		}
		if !o.done {
			o.running = true
			in.call(fr, token.NoPos, a[1], nil)
			o.running = false
			o.done = true
			in.hbRelease(fr, o)
		} else {
			in.hbAcquire(fr, o)
		}
		return nil
	})
	reg("(*sync.Pool).Get", func(fr *frame, a []Value) Value {
		in := fr.in
		p := (*a[0].(*Value)).(Struct)
		newFn := p[len(p)-1]
		if in.isNilValue(newFn) {
			return Iface{}
		}
		return in.call(fr, token.NoPos, newFn, nil)
	})
	reg("(*sync.Pool).Put", func(fr *frame, a []Value) Value { return nil })

	// sync/atomic on plain words
	reg("sync/atomic.AddInt32", func(fr *frame, a []Value) Value {
		p := a[0].(*Value)
		v := fr.in.ctx.Add((*p).(*sym.Term), tm(a[1]))
		*p = v
		return v
	})
	reg("sync/atomic.AddInt64", intrinsics["sync/atomic.AddInt32"])
	reg("sync/atomic.AddUint32", intrinsics["sync/atomic.AddInt32"])
	reg("sync/atomic.AddUint64", intrinsics["sync/atomic.AddInt32"])
	load := func(fr *frame, a []Value) Value { return *a[0].(*Value) }
	reg("sync/atomic.LoadInt32", load)
	reg("sync/atomic.LoadInt64", load)
	reg("sync/atomic.LoadUint32", load)
	reg("sync/atomic.LoadUint64", load)
	store := func(fr *frame, a []Value) Value { *a[0].(*Value) = a[1]; return nil }
	reg("sync/atomic.StoreInt32", store)
	reg("sync/atomic.StoreInt64", store)
	reg("sync/atomic.StoreUint32", store)
	reg("sync/atomic.StoreUint64", store)
	cas := func(fr *frame, a []Value) Value {
		in := fr.in
		p := a[0].(*Value)
		if in.branchX(in.ctx.Eq((*p).(*sym.Term), tm(a[1])), 0, false, "cas") {
			*p = a[2]
			return in.ctx.True()
		}
		return in.ctx.False()
	}
	reg("sync/atomic.CompareAndSwapInt32", cas)
	reg("sync/atomic.CompareAndSwapInt64", cas)
	reg("sync/atomic.CompareAndSwapUint32", cas)
	reg("sync/atomic.CompareAndSwapUint64", cas)
}


// sync.Map: an engine-side map per object address (keys and values are interfaces).
func (in *Interp) syncMapOf(p Value) *Map {
	c := p.(*Value)
	if c == nil {
		panic(targetPanic{msg: "runtime error: invalid memory address or nil pointer dereference (nil *sync.Map)", rt: true})
	}
	if in.syncMaps == nil {
		in.syncMaps = map[*Value]*Map{}
	}
	m := in.syncMaps[c]
	if m == nil {
		m = in.newMap(types.NewInterfaceType(nil, nil))
		in.syncMaps[c] = m
	}
	return m
}

func init() {
	reg("(*sync.Map).Load", func(fr *frame, a []Value) Value {
		in := fr.in
		in.schedPoint(fr, "syncmap")
		if e := in.mapFind(fr, in.syncMapOf(a[0]), a[1]); e != nil {
			return Tuple{copyVal(e.val), in.ctx.True()}
		}
		return Tuple{Iface{}, in.ctx.False()}
	})
	reg("(*sync.Map).Store", func(fr *frame, a []Value) Value {
		in := fr.in
		in.schedPoint(fr, "syncmap")
		in.mapInsert(fr, in.syncMapOf(a[0]), a[1], a[2])
		return nil
	})
	reg("(*sync.Map).LoadOrStore", func(fr *frame, a []Value) Value {
		in := fr.in
		in.schedPoint(fr, "syncmap")
		m := in.syncMapOf(a[0])
		if e := in.mapFind(fr, m, a[1]); e != nil {
			return Tuple{copyVal(e.val), in.ctx.True()}
		}
		in.mapInsert(fr, m, a[1], a[2])
		return Tuple{a[2], in.ctx.False()}
	})
	reg("(*sync.Map).Delete", func(fr *frame, a []Value) Value {
		in := fr.in
		in.schedPoint(fr, "syncmap")
		in.mapDelete(fr, in.syncMapOf(a[0]), a[1])
		return nil
	})
	reg("(*sync.Map).LoadAndDelete", func(fr *frame, a []Value) Value {
		in := fr.in
		in.schedPoint(fr, "syncmap")
		m := in.syncMapOf(a[0])
		if e := in.mapFind(fr, m, a[1]); e != nil {
			v := copyVal(e.val)
			in.mapDelete(fr, m, a[1])
			return Tuple{v, in.ctx.True()}
		}
		return Tuple{Iface{}, in.ctx.False()}
	})
}
