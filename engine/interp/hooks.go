package interp

import (
	"fmt"
	"go/token"
	"go/types"
	"path/filepath"
	"strings"

	"gosymx/sym"

	"golang.org/x/tools/go/ssa"
)

// Package classes.
const (
	clsTarget = iota // interpreted, re-initialised per path
	clsStd           // interpreted from source, initialised once per worker
	clsNative        // never interpreted: hooks / native registry only
)

var interpStd = map[string]bool{
	"strings": true, "bytes": true, "strconv": true, "sort": true, "slices": true, "maps": true, "cmp": true,
	"unicode/utf8": true, "unicode": true, "path": true, "errors": true, "io": true, "bufio": true,
	"encoding/binary": true, "math/bits": true, "internal/stringslite": true, "internal/itoa": true,
	"text/tabwriter": true, "container/list": true, "unicode/utf16": true, "iter": true,
	"internal/bytealg": true, "net/url": true, "github.com/ianlancetaylor/demangle": true,
}

func pkgClass(path string) int {
	if strings.HasPrefix(path, "github.com/google/pprof") {
		return clsTarget
	}
	if interpStd[path] {
		return clsStd
	}
	return clsNative
}

func fnPkgPath(fn *ssa.Function) string {
	if fn.Pkg != nil {
		return fn.Pkg.Pkg.Path()
	}
	if o := fn.Origin(); o != nil && o.Pkg != nil {
		return o.Pkg.Pkg.Path()
	}
	if fn.Object() != nil && fn.Object().Pkg() != nil {
		return fn.Object().Pkg().Path()
	}
	// wrappers/bound methods: use the receiver's package
	if fn.Signature.Recv() != nil {
		t := fn.Signature.Recv().Type()
		if p, ok := t.(*types.Pointer); ok {
			t = p.Elem()
		}
		if n, ok := t.(*types.Named); ok && n.Obj().Pkg() != nil {
			return n.Obj().Pkg().Path()
		}
	}
	return ""
}

func fnKey(fn *ssa.Function) string {
	if o := fn.Origin(); o != nil {
		return o.String()
	}
	return fn.String()
}

// hookFor returns the interception for fn, or nil to interpret its body.
func (in *Interp) hookFor(fn *ssa.Function) hookFn {
	if h, ok := in.hooks[fn]; ok {
		return h
	}
	if in.hookMiss[fn] {
		return nil
	}
	h := in.resolveHook(fn)
	if h == nil {
		in.hookMiss[fn] = true
	} else {
		in.hooks[fn] = h
	}
	return h
}

func (in *Interp) resolveHook(fn *ssa.Function) hookFn {
	name := fnKey(fn)
	// harness API
	if fn.Pkg != nil && pkgClass(fn.Pkg.Pkg.Path()) == clsTarget && strings.HasPrefix(fn.Name(), "v") {
		if f := in.prog.Fset.Position(fn.Pos()).Filename; strings.HasPrefix(filepath.Base(f), "zz_verif") {
			if h, ok := harnessAPI[fn.Name()]; ok {
				return h
			}
		}
	}
	if h, ok := intrinsics[name]; ok {
		return h
	}
	if nf, ok := nativeRegistry[name]; ok {
		sig := fn.Signature
		return func(fr *frame, args []Value) Value {
			return fr.in.callNative(name, nf, sig, args)
		}
	}
	path := fnPkgPath(fn)
	cls := pkgClass(path)
	if fn.Synthetic != "" && fn.Blocks != nil && cls != clsNative {
		return nil
	}
	if cls != clsNative {
		if fn.Blocks == nil {
			return func(fr *frame, args []Value) Value {
				fr.in.unsupported("no body and no model for " + name)
				return nil
			}
		}
		return nil
	}
	// native class
	if fn.Name() == "init" || strings.HasPrefix(fn.Name(), "init#") {
		return func(fr *frame, args []Value) Value { return nil }
	}
	if nf, ok := nativeRegistry[name]; ok {
		sig := fn.Signature
		return func(fr *frame, args []Value) Value {
			return fr.in.callNative(name, nf, sig, args)
		}
	}
	// wrappers ($bound, $thunk) and embedded-method wrappers of native types with bodies
	if fn.Synthetic != "" && fn.Blocks != nil {
		return nil
	}
	return func(fr *frame, args []Value) Value {
		fr.in.unsupported("no model for native function " + name)
		return nil
	}
}

// ---------- harness API ----------

var harnessAPI = map[string]hookFn{}

func init() {
	mkVar := func(kind string, w int) hookFn {
		return func(fr *frame, args []Value) Value {
			in := fr.in
			name := in.concreteString(args[0], "v* name")
			var t *sym.Term
			if kind == "bool" {
				t = in.input(name, kind, sym.Bool)
			} else {
				t = in.input(name, kind, sym.BV(w))
			}
			return t
		}
	}
	harnessAPI["vInt64"] = mkVar("int64", 64)
	harnessAPI["vInt"] = mkVar("int", 64)
	harnessAPI["vUint64"] = mkVar("uint64", 64)
	harnessAPI["vInt32"] = mkVar("int32", 32)
	harnessAPI["vUint32"] = mkVar("uint32", 32)
	harnessAPI["vByte"] = mkVar("byte", 8)
	harnessAPI["vBool"] = mkVar("bool", 0)
	harnessAPI["vFloat64"] = func(fr *frame, args []Value) Value {
		in := fr.in
		name := in.concreteString(args[0], "v* name")
		return in.input(name, "float64", sym.F64)
	}
	harnessAPI["vChoice"] = func(fr *frame, args []Value) Value {
		in := fr.in
		name := in.concreteString(args[0], "vChoice name")
		n := int(in.concreteInt(args[1], "vChoice n"))
		if k, ok := in.choices[name]; ok {
			return in.intC(int64(k)) // a choice is a function of its name
		}
		k := in.choose(name, n)
		in.choices[name] = k
		in.inputs = append(in.inputs, InputRec{Name: name, Kind: "choice", Choice: k, N: n})
		return in.intC(int64(k))
	}
	harnessAPI["vAssume"] = func(fr *frame, args []Value) Value {
		fr.in.assume(args[0].(*sym.Term))
		return nil
	}
	harnessAPI["vAssert"] = func(fr *frame, args []Value) Value {
		in := fr.in
		msg := in.concreteString(args[1], "vAssert msg")
		label := msg
		if i := strings.Index(msg, ": "); i > 0 {
			label = msg[:i]
		}
		if in.inReplay() {
			c := args[0].(*sym.Term)
			if !c.IsFalse() {
				in.assume(c)
			} else {
				in.pathViolations++ // reported when this prefix was first explored
			}
			return nil
		}
		in.assert(args[0].(*sym.Term), label, msg, fr)
		return nil
	}
	harnessAPI["vBound"] = func(fr *frame, args []Value) Value {
		in := fr.in
		name := in.concreteString(args[0], "vBound name")
		def := in.concreteInt(args[1], "vBound default")
		if v, ok := in.cfg.Bounds[name]; ok {
			def = int64(v)
		}
		in.boundsUsed[name] = int(def)
		return in.intC(def)
	}
	harnessAPI["vRaceDetect"] = func(fr *frame, args []Value) Value {
		in := fr.in
		in.ensureMonitor()
		in.mon.race = true
		in.ensureSched()
		return nil
	}
	harnessAPI["vSchedMode"] = func(fr *frame, args []Value) Value {
		fr.in.schedMode = fr.in.concreteString(args[0], "vSchedMode")
		return nil
	}
	harnessAPI["vYield"] = func(fr *frame, args []Value) Value {
		fr.in.schedPoint(fr, "yield")
		return nil
	}
	harnessAPI["vRegister"] = func(fr *frame, args []Value) Value { return nil }
	harnessAPI["vReach"] = func(fr *frame, args []Value) Value {
		in := fr.in
		in.Stats.Reach[in.concreteString(args[0], "vReach tag")]++
		return nil
	}
	harnessAPI["vObserve"] = func(fr *frame, args []Value) Value {
		in := fr.in
		for _, a := range args[0].([]Value) {
			in.observed = append(in.observed, a)
		}
		return nil
	}
	harnessAPI["vNote"] = func(fr *frame, args []Value) Value {
		fr.in.note(fr.in.concreteString(args[0], "vNote"))
		return nil
	}
	harnessAPI["vMapOrder"] = func(fr *frame, args []Value) Value {
		fr.in.mapOrderOverride = fr.in.concreteString(args[0], "vMapOrder")
		return nil
	}
	harnessAPI["vSymbolic"] = func(fr *frame, args []Value) Value {
		return fr.in.ctx.BoolC(fr.in.cfg.Concrete == nil)
	}
	harnessAPI["vIsConcrete"] = func(fr *frame, args []Value) Value {
		return fr.in.ctx.BoolC(isConcreteDeep(args[0]))
	}
	// vIte(c, a, b int64) int64: branch-free selection.
	harnessAPI["vIte"] = func(fr *frame, args []Value) Value {
		return fr.in.ctx.Ite(args[0].(*sym.Term), args[1].(*sym.Term), args[2].(*sym.Term))
	}
	harnessAPI["vB2I"] = func(fr *frame, args []Value) Value {
		c := fr.in.ctx
		return c.Ite(args[0].(*sym.Term), c.BVC(64, 1), c.BVC(64, 0))
	}
	harnessAPI["vAnd"] = func(fr *frame, args []Value) Value {
		return fr.in.ctx.And(args[0].(*sym.Term), args[1].(*sym.Term))
	}
	harnessAPI["vOr"] = func(fr *frame, args []Value) Value {
		return fr.in.ctx.Or(args[0].(*sym.Term), args[1].(*sym.Term))
	}
	harnessAPI["vImplies"] = func(fr *frame, args []Value) Value {
		return fr.in.ctx.Implies(args[0].(*sym.Term), args[1].(*sym.Term))
	}
	harnessAPI["vStrEq"] = func(fr *frame, args []Value) Value {
		return fr.in.strEq(args[0], args[1])
	}
	harnessAPI["vRegexp"] = func(fr *frame, args []Value) Value {
		in := fr.in
		name := in.concreteString(args[0], "vRegexp name")
		if r, ok := in.symRegexps[name]; ok {
			return r
		}
		r := &SymRegexp{Name: name}
		in.symRegexps[name] = r
		return r
	}
	harnessAPI["vFreeze"] = func(fr *frame, args []Value) Value {
		in := fr.in
		in.ensureMonitor()
		in.mon.freeze(in, args[0], in.concreteString(args[1], "vFreeze tag"))
		return nil
	}
	harnessAPI["vUnfreeze"] = func(fr *frame, args []Value) Value {
		if fr.in.mon != nil {
			fr.in.mon.frozen = map[*Value]string{}
		}
		return nil
	}
	harnessAPI["vShares"] = func(fr *frame, args []Value) Value {
		in := fr.in
		return in.ctx.BoolC(in.sharesMemory(args[0], args[1]))
	}
}

func isConcreteDeep(v Value) bool {
	switch v := v.(type) {
	case *sym.Term:
		return v.IsConst()
	case *SStr:
		return false
	case Iface:
		return isConcreteDeep(v.V)
	case Struct:
		for _, e := range v {
			if !isConcreteDeep(e) {
				return false
			}
		}
	case Array:
		for _, e := range v {
			if !isConcreteDeep(e) {
				return false
			}
		}
	case []Value:
		for _, e := range v {
			if !isConcreteDeep(e) {
				return false
			}
		}
	}
	return true
}

// input creates (or re-uses) the named symbolic input.
func (in *Interp) input(name, kind string, s sym.Sort) *sym.Term {
	var t *sym.Term
	if in.cfg.Concrete != nil {
		v := in.cfg.Concrete[name]
		switch s.K {
		case sym.KBool:
			t = in.ctx.BoolC(v&1 == 1)
		case sym.KBV:
			t = in.ctx.BVC(s.W, v)
		default:
			t = in.ctx.F64C(0)
			t = in.ctx.FBits(in.ctx.BVC(64, v))
		}
	} else {
		t = in.ctx.Var(name, s)
	}
	for _, r := range in.inputs {
		if r.Name == name {
			return t
		}
	}
	in.inputs = append(in.inputs, InputRec{Name: name, Kind: kind, W: s.W, Term: t})
	return t
}

// ---------- run entry / init ----------

func (in *Interp) runEntry(entry *ssa.Function) {
	// (re-)initialise target packages; std packages keep their state.
	if init := entry.Pkg.Func("init"); init != nil {
		in.call(nil, token.NoPos, init, nil)
	}
	defer func() {
		if in.sched != nil {
			in.sched.kill()
		}
	}()
	in.call(nil, token.NoPos, entry, nil)
	if in.sched != nil {
		in.sched.drain(in)
	}
}

var _ = fmt.Sprintf
