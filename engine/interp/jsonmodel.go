package interp

import (
	"bytes"
	"encoding/json"
	"fmt"
	"go/types"
	"reflect"
	"strings"

	"gosymx/sym"
)

// encoding/json over engine values (the library itself is reflection driven
// and cannot be interpreted): objects follow the struct's field order and
// json tags, embedded structs are flattened, omitempty is honoured. Only the
// kinds pprof's settings use are supported. All data must be concrete.

type jsonField struct {
	name      string
	omitempty bool
	index     []int
	typ       types.Type
}

func jsonFields(t types.Type, prefix []int) []jsonField {
	st, ok := t.Underlying().(*types.Struct)
	if !ok {
		return nil
	}
	var out []jsonField
	for i := 0; i < st.NumFields(); i++ {
		f := st.Field(i)
		tag := reflect.StructTag(st.Tag(i)).Get("json")
		idx := append(append([]int{}, prefix...), i)
		if tag == "-" {
			continue
		}
		name, opts, _ := strings.Cut(tag, ",")
		if f.Embedded() && name == "" {
			ft := f.Type()
			if p, ok := ft.Underlying().(*types.Pointer); ok {
				ft = p.Elem()
			}
			if _, isStruct := ft.Underlying().(*types.Struct); isStruct {
				out = append(out, jsonFields(ft, idx)...)
				continue
			}
		}
		if !f.Exported() {
			continue
		}
		if name == "" {
			name = f.Name()
		}
		out = append(out, jsonField{name: name, omitempty: strings.Contains(opts, "omitempty"), index: idx, typ: f.Type()})
	}
	return out
}

func (in *Interp) jsonEncode(buf *bytes.Buffer, v Value, t types.Type) {
	switch u := t.Underlying().(type) {
	case *types.Basic:
		switch x := v.(type) {
		case *sym.Term:
			x = in.needConst(x, "json value")
			switch {
			case u.Kind() == types.Bool:
				fmt.Fprint(buf, x.C == 1)
			case u.Info()&types.IsFloat != 0:
				b, _ := json.Marshal(x.Float())
				buf.Write(b)
			case u.Info()&types.IsUnsigned != 0:
				fmt.Fprint(buf, x.C)
			default:
				fmt.Fprint(buf, x.Int64())
			}
		default:
			b, _ := json.Marshal(in.concreteString(x, "json string"))
			buf.Write(b)
		}
	case *types.Struct:
		s := v.(Struct)
		buf.WriteByte('{')
		first := true
		for _, f := range jsonFields(t, nil) {
			fv := Value(s)
			for _, i := range f.index {
				fv = fv.(Struct)[i]
			}
			if f.omitempty && in.jsonEmpty(fv) {
				continue
			}
			if !first {
				buf.WriteByte(',')
			}
			first = false
			b, _ := json.Marshal(f.name)
			buf.Write(b)
			buf.WriteByte(':')
			in.jsonEncode(buf, fv, f.typ)
		}
		buf.WriteByte('}')
	case *types.Slice:
		xs, _ := v.([]Value)
		if xs == nil {
			buf.WriteString("null")
			return
		}
		buf.WriteByte('[')
		for i, x := range xs {
			if i > 0 {
				buf.WriteByte(',')
			}
			in.jsonEncode(buf, x, u.Elem())
		}
		buf.WriteByte(']')
	case *types.Pointer:
		p, _ := v.(*Value)
		if p == nil {
			buf.WriteString("null")
			return
		}
		in.jsonEncode(buf, *p, u.Elem())
	default:
		in.unsupported("json encoding of " + t.String())
	}
}

func (in *Interp) jsonEmpty(v Value) bool {
	switch x := v.(type) {
	case *sym.Term:
		x = in.needConst(x, "json omitempty")
		if x.Sort.K == sym.KFP {
			return x.Float() == 0
		}
		return x.C == 0
	case string:
		return x == ""
	case []Value:
		return len(x) == 0
	case *Value:
		return x == nil
	}
	return false
}

// jsonDecode assigns the generic JSON value j to the cell of type t.
func (in *Interp) jsonDecode(cell *Value, t types.Type, j interface{}) error {
	if j == nil {
		return nil // null leaves the value unchanged
	}
	switch u := t.Underlying().(type) {
	case *types.Basic:
		switch {
		case u.Kind() == types.Bool:
			b, ok := j.(bool)
			if !ok {
				return fmt.Errorf("json: cannot unmarshal %T into Go value of type %s", j, t)
			}
			*cell = in.ctx.BoolC(b)
		case u.Info()&types.IsString != 0:
			s, ok := j.(string)
			if !ok {
				return fmt.Errorf("json: cannot unmarshal %T into Go value of type %s", j, t)
			}
			*cell = s
		case u.Info()&types.IsFloat != 0:
			n, ok := j.(json.Number)
			if !ok {
				return fmt.Errorf("json: cannot unmarshal %T into Go value of type %s", j, t)
			}
			f, err := n.Float64()
			if err != nil {
				return err
			}
			*cell = in.ctx.F64C(f)
		case u.Info()&types.IsInteger != 0:
			n, ok := j.(json.Number)
			if !ok {
				return fmt.Errorf("json: cannot unmarshal %T into Go value of type %s", j, t)
			}
			i, err := n.Int64()
			if err != nil {
				return fmt.Errorf("json: cannot unmarshal number %s into Go value of type %s", n, t)
			}
			*cell = in.ctx.BVC(in.width(u), uint64(i))
		}
	case *types.Struct:
		obj, ok := j.(map[string]interface{})
		if !ok {
			return fmt.Errorf("json: cannot unmarshal %T into Go value of type %s", j, t)
		}
		fields := jsonFields(t, nil)
		for k, jv := range obj {
			var f *jsonField
			for i := range fields {
				if fields[i].name == k {
					f = &fields[i]
					break
				}
			}
			if f == nil {
				for i := range fields {
					if strings.EqualFold(fields[i].name, k) {
						f = &fields[i]
						break
					}
				}
			}
			if f == nil {
				continue
			}
			c := cell
			for _, i := range f.index {
				s := (*c).(Struct)
				c = &s[i]
			}
			if err := in.jsonDecode(c, f.typ, jv); err != nil {
				return err
			}
		}
	case *types.Slice:
		arr, ok := j.([]interface{})
		if !ok {
			return fmt.Errorf("json: cannot unmarshal %T into Go value of type %s", j, t)
		}
		out := make([]Value, len(arr))
		for i, e := range arr {
			out[i] = in.zero(u.Elem())
			if err := in.jsonDecode(&out[i], u.Elem(), e); err != nil {
				return err
			}
		}
		*cell = out
	default:
		in.unsupported("json decoding into " + t.String())
	}
	return nil
}

func init() {
	marshal := func(indent bool) hookFn {
		return func(fr *frame, a []Value) Value {
			in := fr.in
			i := a[0].(Iface)
			var buf bytes.Buffer
			v, t := i.V, i.T
			if p, ok := t.Underlying().(*types.Pointer); ok {
				pv, _ := v.(*Value)
				if pv == nil {
					return Tuple{in.bytesValue([]byte("null")), Iface{}}
				}
				v, t = *pv, p.Elem()
			}
			in.jsonEncode(&buf, v, t)
			out := buf.Bytes()
			if indent {
				var ib bytes.Buffer
				json.Indent(&ib, out, in.concreteString(a[1], "json prefix"), in.concreteString(a[2], "json indent"))
				out = ib.Bytes()
			}
			return Tuple{in.bytesValue(out), Iface{}}
		}
	}
	reg("encoding/json.Marshal", marshal(false))
	reg("encoding/json.MarshalIndent", marshal(true))
	reg("encoding/json.Unmarshal", func(fr *frame, a []Value) Value {
		in := fr.in
		data := in.bytesConcrete(a[0], "json input")
		dst := a[1].(Iface)
		p, ok := dst.T.Underlying().(*types.Pointer)
		cell, _ := dst.V.(*Value)
		if !ok || cell == nil {
			return in.nativeErr(fmt.Errorf("json: Unmarshal(non-pointer or nil)"))
		}
		dec := json.NewDecoder(bytes.NewReader(data))
		dec.UseNumber()
		var j interface{}
		if err := dec.Decode(&j); err != nil {
			return in.nativeErr(err)
		}
		// trailing data is a syntax error for Unmarshal
		if dec.More() {
			return in.nativeErr(fmt.Errorf("invalid character after top-level value"))
		}
		if err := in.jsonDecode(cell, p.Elem(), j); err != nil {
			return in.nativeErr(err)
		}
		return Iface{}
	})
}
