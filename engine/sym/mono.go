package sym

import "math"

// Exact rewriting of floating-point comparisons against constants.
//
// If t = f(leaf) where f is a composition of IEEE operations that are monotone
// in their argument (multiplication/division by a finite non-zero constant,
// negation, rounding to integral, int->float conversion), then
// "t >= k" is equivalent to "leaf >= T" (or "<= T") for a threshold T that is
// found by bisection with the host FPU (IEEE-754 double, round-to-nearest-even,
// the same arithmetic the solver's FP theory defines). The comparison then
// becomes a comparison on the leaf: an integer comparison when the leaf is an
// int->float conversion. This is an equivalence, not an approximation.

type monoChain struct {
	leaf   *Term
	eval   func(float64) float64
	intSrc int // 0: FP leaf, 1: signed int leaf, 2: unsigned int leaf
}

func decompose(t *Term) (*monoChain, bool) {
	if t.Sort != F64 {
		return nil, false
	}
	switch t.Op {
	case OpSToF:
		return &monoChain{leaf: t.Args[0], eval: func(x float64) float64 { return x }, intSrc: 1}, true
	case OpUToF:
		return &monoChain{leaf: t.Args[0], eval: func(x float64) float64 { return x }, intSrc: 2}, true
	case OpFAbs:
		return &monoChain{leaf: t, eval: func(x float64) float64 { return x }}, true
	case OpFNeg:
		m, ok := decompose(t.Args[0])
		if !ok {
			m = &monoChain{leaf: t.Args[0], eval: func(x float64) float64 { return x }}
		}
		f := m.eval
		return &monoChain{leaf: m.leaf, eval: func(x float64) float64 { return -f(x) }, intSrc: m.intSrc}, true
	case OpFRnd:
		m, ok := decompose(t.Args[0])
		if !ok {
			m = &monoChain{leaf: t.Args[0], eval: func(x float64) float64 { return x }}
		}
		f := m.eval
		mode := t.P0
		return &monoChain{leaf: m.leaf, eval: func(x float64) float64 {
			y := f(x)
			switch mode {
			case 0:
				return math.Round(y)
			case 1:
				return math.Floor(y)
			case 2:
				return math.Ceil(y)
			case 3:
				return math.Trunc(y)
			}
			return math.RoundToEven(y)
		}, intSrc: m.intSrc}, true
	case OpFMul, OpFDiv:
		a, b := t.Args[0], t.Args[1]
		if !finiteNonZeroConst(b) {
			if t.Op == OpFMul && finiteNonZeroConst(a) {
				a, b = b, a
			} else {
				return nil, false
			}
		}
		k := fval(b.Sort, b.C)
		m, ok := decompose(a)
		if !ok {
			m = &monoChain{leaf: a, eval: func(x float64) float64 { return x }}
		}
		f := m.eval
		if t.Op == OpFMul {
			return &monoChain{leaf: m.leaf, eval: func(x float64) float64 { return f(x) * k }, intSrc: m.intSrc}, true
		}
		return &monoChain{leaf: m.leaf, eval: func(x float64) float64 { return f(x) / k }, intSrc: m.intSrc}, true
	}
	return nil, false
}

// ordered key of a double: monotone bijection onto uint64 (NaNs at the ends).
func fkey(f float64) uint64 {
	u := math.Float64bits(f)
	if u>>63 == 1 {
		return ^u
	}
	return u | 1<<63
}
func fromKey(k uint64) float64 {
	if k>>63 == 1 {
		return math.Float64frombits(k &^ (1 << 63))
	}
	return math.Float64frombits(^k)
}

// cmpConst rewrites "t >= k" (ge) / "t > k" / "t <= k" / "t < k".
// op: 0 ">=", 1 ">", 2 "<=", 3 "<". Returns nil if t is not a monotone chain.
func (c *Ctx) cmpConst(t *Term, op int, k float64) *Term {
	if k != k {
		return c.ff
	}
	m, ok := decompose(t)
	if !ok {
		return nil
	}
	pred := func(y float64) bool {
		v := m.eval(y)
		switch op {
		case 0:
			return v >= k
		case 1:
			return v > k
		case 2:
			return v <= k
		}
		return v < k
	}
	return c.threshold(m, pred)
}

// cmpToIntConst rewrites "int64(t) op K" (signed compare, op as in cmpConst)
// where t is a monotone chain over an integer leaf whose value stays within
// the int64 range for every leaf value (so the truncating conversion is
// monotone non-decreasing and defined). Returns nil otherwise.
func (c *Ctx) cmpToIntConst(t *Term, op int, K int64) *Term {
	m, ok := decompose(t)
	if !ok || m.intSrc == 0 {
		return nil
	}
	w := m.leaf.Sort.W
	var flo, fhi float64
	if m.intSrc == 1 {
		flo, fhi = -math.Ldexp(1, w-1), math.Ldexp(1, w-1)-1
		if w == 64 {
			flo, fhi = float64(math.MinInt64), float64(math.MaxInt64)
		}
	} else {
		flo, fhi = 0, float64(mask(w))
	}
	lim := math.Ldexp(1, 63)
	for _, e := range []float64{m.eval(flo), m.eval(fhi)} {
		if e != e || e >= lim || e <= -lim {
			return nil
		}
	}
	pred := func(y float64) bool {
		v := int64(m.eval(y))
		switch op {
		case 0:
			return v >= K
		case 1:
			return v > K
		case 2:
			return v <= K
		}
		return v < K
	}
	return c.threshold(m, pred)
}

func (c *Ctx) threshold(m *monoChain, pred func(float64) bool) *Term {
	switch m.intSrc {
	case 0:
		lo, hi := fkey(math.Inf(-1)), fkey(math.Inf(1))
		pl, ph := pred(fromKey(lo)), pred(fromKey(hi))
		leaf := m.leaf
		if pl == ph {
			if !pl {
				return c.ff
			}
			// true for every non-NaN leaf
			if NeverNaN(leaf) {
				return c.tt
			}
			return c.Not(c.FIsNaN(leaf))
		}
		// find boundary: largest key with pred == pl
		for hi-lo > 1 {
			mid := lo + (hi-lo)/2
			if pred(fromKey(mid)) == pl {
				lo = mid
			} else {
				hi = mid
			}
		}
		if ph {
			// true for leaf >= T
			T := fromKey(hi)
			if leaf.Op == OpFAbs {
				// |z| >= T  <=>  z >= T or z <= -T   (T > 0); always true for T <= 0 (non-NaN)
				z := leaf.Args[0]
				if T <= 0 {
					if NeverNaN(z) {
						return c.tt
					}
					return c.Not(c.FIsNaN(z))
				}
				return c.Or(c.FLe(c.F64C(T), z), c.FLe(z, c.F64C(-T)))
			}
			return c.node(OpFLe, Bool, 0, 0, "", c.F64C(T), leaf)
		}
		T := fromKey(lo)
		if leaf.Op == OpFAbs {
			// |z| <= T  <=>  -T <= z <= T
			z := leaf.Args[0]
			if T < 0 {
				return c.ff
			}
			return c.And(c.FLe(z, c.F64C(T)), c.FLe(c.F64C(-T), z))
		}
		return c.node(OpFLe, Bool, 0, 0, "", leaf, c.F64C(T))
	case 1:
		w := m.leaf.Sort.W
		lo := -(int64(1) << uint(w-1))
		hi := int64(1)<<uint(w-1) - 1
		if w == 64 {
			lo, hi = math.MinInt64, math.MaxInt64
		}
		pl, ph := pred(float64(lo)), pred(float64(hi))
		if pl == ph {
			return c.BoolC(pl)
		}
		for uint64(hi)-uint64(lo) > 1 {
			mid := lo + int64((uint64(hi)-uint64(lo))/2)
			if pred(float64(mid)) == pl {
				lo = mid
			} else {
				hi = mid
			}
		}
		if ph {
			return c.SLe(c.BVC(w, uint64(hi)), m.leaf)
		}
		return c.SLe(m.leaf, c.BVC(w, uint64(lo)))
	case 2:
		w := m.leaf.Sort.W
		lo, hi := uint64(0), mask(w)
		pl, ph := pred(float64(lo)), pred(float64(hi))
		if pl == ph {
			return c.BoolC(pl)
		}
		for hi-lo > 1 {
			mid := lo + (hi-lo)/2
			if pred(float64(mid)) == pl {
				lo = mid
			} else {
				hi = mid
			}
		}
		if ph {
			return c.ULe(c.BVC(w, hi), m.leaf)
		}
		return c.ULe(m.leaf, c.BVC(w, lo))
	}
	return nil
}

// URange is a structural upper/lower bound of a bit-vector term read as an
// unsigned number (sound, not tight).
func URange(t *Term) (lo, hi uint64) {
	w := t.Sort.W
	full := mask(w)
	switch t.Op {
	case OpConst:
		return t.C, t.C
	case OpZExt:
		return URange(t.Args[0])
	case OpExtract:
		if t.P1 == 0 {
			_, h0 := URange(t.Args[0])
			if h0 <= full {
				return 0, h0
			}
		}
	case OpBAnd:
		_, h0 := URange(t.Args[0])
		_, h1 := URange(t.Args[1])
		if h1 < h0 {
			h0 = h1
		}
		return 0, h0
	case OpAdd:
		l0, h0 := URange(t.Args[0])
		l1, h1 := URange(t.Args[1])
		if h0+h1 >= h0 && h0+h1 <= full {
			return l0 + l1, h0 + h1
		}
	case OpIte:
		l0, h0 := URange(t.Args[1])
		l1, h1 := URange(t.Args[2])
		if l1 < l0 {
			l0 = l1
		}
		if h1 > h0 {
			h0 = h1
		}
		return l0, h0
	case OpLShr:
		if t.Args[1].Op == OpConst && t.Args[1].C < uint64(w) {
			_, h0 := URange(t.Args[0])
			return 0, h0 >> t.Args[1].C
		}
	case OpURem:
		if t.Args[1].Op == OpConst && t.Args[1].C > 0 {
			return 0, t.Args[1].C - 1
		}
	}
	return 0, full
}

// smallFToS rewrites int64(chain(leaf)) into integer arithmetic on the leaf
// when the leaf's structural range is so small that the conversion takes at
// most 17 distinct values: min + sum over k of [int64(chain) >= k], each
// indicator being an exact threshold comparison on the leaf.
func (c *Ctx) smallFToS(a *Term) *Term {
	m, ok := decompose(a)
	if !ok || m.intSrc == 0 {
		return nil
	}
	lo, hi := URange(m.leaf)
	w := m.leaf.Sort.W
	if m.intSrc == 1 && hi >= uint64(1)<<uint(w-1) {
		return nil
	}
	if hi-lo > 1<<32 {
		return nil
	}
	e0, e1 := m.eval(float64(lo)), m.eval(float64(hi))
	lim := math.Ldexp(1, 62)
	if e0 != e0 || e1 != e1 || math.Abs(e0) >= lim || math.Abs(e1) >= lim {
		return nil
	}
	i0, i1 := int64(e0), int64(e1)
	if i0 > i1 {
		i0, i1 = i1, i0
	}
	if i1-i0 > 16 {
		return nil
	}
	r := c.BVC(64, uint64(i0))
	for k := i0 + 1; k <= i1; k++ {
		b := c.cmpToIntConst(a, 0, k)
		if b == nil {
			return nil
		}
		r = c.Add(r, c.Ite(b, c.BVC(64, 1), c.BVC(64, 0)))
	}
	return r
}
