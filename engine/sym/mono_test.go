package sym

import (
	"math"
	"math/rand"
	"testing"
)

// TestCmpConstAgainstEval checks the threshold rewriting against direct evaluation.
func TestCmpConstAgainstEval(t *testing.T) {
	c := NewCtx()
	v := c.Var("v", BV(64))
	x := c.SToF(v, F64)
	chains := []*Term{
		c.node(OpFDiv, F64, 0, 0, "", c.node(OpFMul, F64, 0, 0, "", x, c.F64C(1e6)), c.F64C(3.6e12)),
		c.node(OpFDiv, F64, 0, 0, "", x, c.F64C(1e-9)),
		c.node(OpFNeg, F64, 0, 0, "", c.node(OpFMul, F64, 0, 0, "", x, c.F64C(1024))),
		c.node(OpFRnd, F64, 0, 0, "", c.node(OpFMul, F64, 0, 0, "", x, c.F64C(0.001))),
	}
	ks := []float64{1, 0, -1, 1024, 99.95, 0.5, 1e18, -3.5e9, math.Inf(1)}
	rng := rand.New(rand.NewSource(1))
	for _, ch := range chains {
		for _, k := range ks {
			for op := 0; op < 4; op++ {
				r := c.cmpConst(ch, op, k)
				if r == nil {
					t.Fatal("nil rewrite")
				}
				// compare on boundary-ish and random values
				var vals []int64
				if r.Op == OpSLe {
					for _, a := range r.Args {
						if a.Op == OpConst {
							b := a.Int64()
							vals = append(vals, b-1, b, b+1)
						}
					}
				}
				for i := 0; i < 50; i++ {
					vals = append(vals, rng.Int63()-rng.Int63(), rng.Int63n(1<<20)-(1<<19))
				}
				vals = append(vals, math.MinInt64, math.MaxInt64, 0, 1, -1)
				for _, iv := range vals {
					m := Model{"v": uint64(iv)}
					got, _ := Eval(r, m)
					fv, _ := Eval(ch, m)
					f := math.Float64frombits(fv)
					var want bool
					switch op {
					case 0:
						want = f >= k
					case 1:
						want = f > k
					case 2:
						want = f <= k
					case 3:
						want = f < k
					}
					if (got == 1) != want {
						t.Fatalf("chain %v op %d k %v v=%d: rewrite %v gives %v want %v (f=%v)", ch, op, k, iv, r, got, want, f)
					}
				}
			}
		}
	}
}
