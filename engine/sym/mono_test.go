package sym

import (
	"math"
	"math/rand"
	"testing"
)

// TestCmpConstAgainstEval checks the threshold rewriting against direct evaluation.
func TestCmpConstAgainstEval(t *testing.T) {
	c := NewCtx()
	v := c.Var("v", BV(64))
	x := c.SToF(v, F64)
	chains := []*Term{
		c.node(OpFDiv, F64, 0, 0, "", c.node(OpFMul, F64, 0, 0, "", x, c.F64C(1e6)), c.F64C(3.6e12)),
		c.node(OpFDiv, F64, 0, 0, "", x, c.F64C(1e-9)),
		c.node(OpFNeg, F64, 0, 0, "", c.node(OpFMul, F64, 0, 0, "", x, c.F64C(1024))),
		c.node(OpFRnd, F64, 0, 0, "", c.node(OpFMul, F64, 0, 0, "", x, c.F64C(0.001))),
	}
	ks := []float64{1, 0, -1, 1024, 99.95, 0.5, 1e18, -3.5e9, math.Inf(1)}
	rng := rand.New(rand.NewSource(1))
	for _, ch := range chains {
		for _, k := range ks {
			for op := 0; op < 4; op++ {
				r := c.cmpConst(ch, op, k)
				if r == nil {
					t.Fatal("nil rewrite")
				}
				// compare on boundary-ish and random values
				var vals []int64
				if r.Op == OpSLe {
					for _, a := range r.Args {
						if a.Op == OpConst {
							b := a.Int64()
							vals = append(vals, b-1, b, b+1)
						}
					}
				}
				for i := 0; i < 50; i++ {
					vals = append(vals, rng.Int63()-rng.Int63(), rng.Int63n(1<<20)-(1<<19))
				}
				vals = append(vals, math.MinInt64, math.MaxInt64, 0, 1, -1)
				for _, iv := range vals {
					m := Model{"v": uint64(iv)}
					got, _ := Eval(r, m)
					fv, _ := Eval(ch, m)
					f := math.Float64frombits(fv)
					var want bool
					switch op {
					case 0:
						want = f >= k
					case 1:
						want = f > k
					case 2:
						want = f <= k
					case 3:
						want = f < k
					}
					if (got == 1) != want {
						t.Fatalf("chain %v op %d k %v v=%d: rewrite %v gives %v want %v (f=%v)", ch, op, k, iv, r, got, want, f)
					}
				}
			}
		}
	}
}

func TestCmpToIntConst(t *testing.T) {
	c := NewCtx()
	x := c.Var("x", BV(64))
	ch := c.FMul(c.SToF(x, F64), c.F64C(0.005))
	for _, K := range []int64{0, 1, -1, 5, 1000, -77, 1 << 40} {
		for op := 0; op < 4; op++ {
			r := c.cmpToIntConst(ch, op, K)
			if r == nil {
				t.Fatal("nil")
			}
			for _, xv := range []int64{0, 1, -1, 199, 200, 201, -199, -200, -201, 999, 1000, 1001, 1200, 200000, 15399, 15400, 15401, -15400, -15401, 1 << 47, 1<<47 + 3, math.MaxInt64, math.MinInt64, K * 200, K*200 - 1, K*200 + 1, K*200 + 199, K*200 + 200} {
				v := int64(float64(xv) * 0.005)
				var want bool
				switch op {
				case 0:
					want = v >= K
				case 1:
					want = v > K
				case 2:
					want = v <= K
				case 3:
					want = v < K
				}
				got, _ := Eval(r, Model{"x": uint64(xv)})
				if (got != 0) != want {
					t.Fatalf("K=%d op=%d x=%d: got %v want %v (%s)", K, op, xv, got, want, r)
				}
			}
		}
	}
}

func TestSmallFToS(t *testing.T) {
	c := NewCtx()
	a := c.ZExt(c.Var("a", BV(8)), 64)
	b := c.ZExt(c.Var("b", BV(8)), 64)
	for _, k := range []float64{0.005, 0.001, 0.03, -0.02} {
		r := c.FToS(c.FMul(c.SToF(c.Add(a, b), F64), c.F64C(k)), 64)
		if r.Op == OpFToS {
			t.Fatalf("not rewritten for %v", k)
		}
		for av := 0; av < 256; av++ {
			for bv := 0; bv < 256; bv += 5 {
				got, _ := Eval(r, Model{"a": uint64(av), "b": uint64(bv)})
				want := int64(float64(av+bv) * k)
				if int64(got) != want {
					t.Fatalf("k=%v a=%d b=%d got %d want %d", k, av, bv, int64(got), want)
				}
			}
		}
	}
}
