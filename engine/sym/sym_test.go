package sym

import "testing"

func TestBasic(t *testing.T) {
	for _, k := range []string{"z3", "z3-new", "cvc5"} {
		c := NewCtx()
		s, err := NewSolver(k, 10000)
		if err != nil {
			t.Fatal(err)
		}
		x := c.Var("x", BV(64))
		y := c.Var("y", BV(64))
		s.Push(c.Eq(c.Add(x, y), c.BVC(64, 10)))
		if r := s.Check(c.ULt(x, c.BVC(64, 3))); r != Sat {
			t.Fatalf("%s: want sat got %v %s", k, r, s.LastErr)
		}
		m, err := s.Model(c.Vars)
		if err != nil {
			t.Fatal(err)
		}
		s.Done()
		if m["x"]+m["y"] != 10 || m["x"] >= 3 {
			t.Fatalf("bad model %v", m)
		}
		if r := s.Check(c.Not(c.Eq(c.Sub(c.BVC(64, 10), x), y))); r != Unsat {
			t.Fatalf("%s: want unsat got %v", k, r)
		}
		f := c.SToF(x, F64)
		s.Push(c.FLt(c.F64C(2.5), f))
		s.Push(c.SLt(x, c.BVC(64, 4)))
		if r := s.Check(); r != Sat {
			t.Fatalf("%s: fp want sat got %v %s", k, r, s.LastErr)
		}
		m, _ = s.Model(c.Vars)
		if m["x"] != 3 {
			t.Fatalf("fp model %v", m)
		}
		s.PopTo(0)
		fv := c.Var("f", F64)
		if r := s.Check(c.FLt(fv, c.F64C(-1)), c.FLt(c.F64C(-2), fv)); r != Sat {
			t.Fatal("fp2")
		}
		m, err = s.Model(c.Vars)
		if err != nil {
			t.Fatal(err)
		}
		s.Done()
		t.Logf("%s f=%v q=%d", k, fval(F64, m["f"]), s.Queries)
		s.Close()
	}
}
