// Package sym implements hash-consed SMT terms (Bool, BitVec, Float64) with
// constant folding, an evaluator, and SMT-LIB2 printing.
package sym

import (
	"fmt"
	"math"
	"math/bits"
	"strings"
)

type Kind uint8

const (
	KBool Kind = iota
	KBV
	KFP // IEEE double (W=64) or single (W=32)
)

type Sort struct {
	K Kind
	W int
}

var Bool = Sort{KBool, 0}
var F64 = Sort{KFP, 64}
var F32 = Sort{KFP, 32}

func BV(w int) Sort { return Sort{KBV, w} }

func (s Sort) SMT() string {
	switch s.K {
	case KBool:
		return "Bool"
	case KBV:
		return fmt.Sprintf("(_ BitVec %d)", s.W)
	default:
		if s.W == 32 {
			return "(_ FloatingPoint 8 24)"
		}
		return "(_ FloatingPoint 11 53)"
	}
}

type Op uint8

const (
	OpConst Op = iota
	OpVar
	OpNot
	OpAnd
	OpOr
	OpIte
	OpEq
	OpAdd
	OpSub
	OpMul
	OpUDiv
	OpSDiv
	OpURem
	OpSRem
	OpBAnd
	OpBOr
	OpBXor
	OpShl
	OpLShr
	OpAShr
	OpNeg
	OpBNot
	OpULt
	OpULe
	OpSLt
	OpSLe
	OpZExt
	OpSExt
	OpExtract // P0=hi P1=lo
	OpConcat
	OpFAdd
	OpFSub
	OpFMul
	OpFDiv
	OpFNeg
	OpFAbs
	OpFLt
	OpFLe
	OpFEq  // IEEE ==
	OpFRnd // P0 = mode: 0 RNA(math.Round) 1 floor 2 ceil 3 trunc 4 RNE
	OpFSqrt
	OpSToF // signed bv -> fp
	OpUToF
	OpFToS // fp -> signed bv, RTZ; out of range unspecified (callers guard)
	OpFToU
	OpFIsNaN
	OpFIsInf
	OpFToF // fp width conversion
	OpUF   // uninterpreted function Name(args...)
	OpFBits // bv -> fp reinterpretation (to_fp from ieee bits)
)

type Term struct {
	ID    int
	Op    Op
	Sort  Sort
	Args  []*Term
	C     uint64  // const value (bool: 0/1; bv: low W bits; fp: IEEE bits)
	Name  string  // var / UF name
	P0    int
	P1    int
}

func (t *Term) IsConst() bool { return t.Op == OpConst }
func (t *Term) IsTrue() bool  { return t.Op == OpConst && t.Sort.K == KBool && t.C == 1 }
func (t *Term) IsFalse() bool { return t.Op == OpConst && t.Sort.K == KBool && t.C == 0 }

// Int64 returns the signed value of a constant BV.
func (t *Term) Int64() int64 {
	w := t.Sort.W
	if w >= 64 {
		return int64(t.C)
	}
	sh := uint(64 - w)
	return int64(t.C<<sh) >> sh
}
func (t *Term) Uint64() uint64  { return t.C }
func (t *Term) Float() float64 {
	if t.Sort.W == 32 {
		return float64(math.Float32frombits(uint32(t.C)))
	}
	return math.Float64frombits(t.C)
}

func (t *Term) String() string {
	if t.Op == OpConst {
		switch t.Sort.K {
		case KBool:
			if t.C == 1 {
				return "true"
			}
			return "false"
		case KBV:
			return fmt.Sprintf("%d:bv%d", t.Int64(), t.Sort.W)
		default:
			return fmt.Sprintf("%g:f%d", t.Float(), t.Sort.W)
		}
	}
	if t.Op == OpVar {
		return t.Name
	}
	var sb strings.Builder
	fmt.Fprintf(&sb, "(%s", opName(t))
	for _, a := range t.Args {
		sb.WriteByte(' ')
		if sb.Len() > 400 {
			sb.WriteString("...")
			break
		}
		sb.WriteString(a.String())
	}
	sb.WriteByte(')')
	return sb.String()
}

// Ctx is a hash-consing context. Not safe for concurrent use.
type tkey struct {
	op     Op
	k      Kind
	w      int
	c      uint64
	name   string
	p0, p1 int
	n      int
	a0, a1, a2 int
}

type Ctx struct {
	ktab  map[tkey]*Term
	tab   map[string]*Term
	terms []*Term
	Vars  []*Term
	varByName map[string]*Term
	tt, ff *Term
}

func NewCtx() *Ctx {
	c := &Ctx{tab: map[string]*Term{}, ktab: map[tkey]*Term{}, varByName: map[string]*Term{}}
	c.tt = c.mk(&Term{Op: OpConst, Sort: Bool, C: 1})
	c.ff = c.mk(&Term{Op: OpConst, Sort: Bool, C: 0})
	return c
}

func (c *Ctx) NumTerms() int { return len(c.terms) }

func key(t *Term) string {
	var sb strings.Builder
	fmt.Fprintf(&sb, "%d|%d.%d|%x|%s|%d|%d", t.Op, t.Sort.K, t.Sort.W, t.C, t.Name, t.P0, t.P1)
	for _, a := range t.Args {
		fmt.Fprintf(&sb, ",%d", a.ID)
	}
	return sb.String()
}

func (c *Ctx) mk(t *Term) *Term {
	if len(t.Args) <= 3 {
		k := tkey{op: t.Op, k: t.Sort.K, w: t.Sort.W, c: t.C, name: t.Name, p0: t.P0, p1: t.P1, n: len(t.Args), a0: -1, a1: -1, a2: -1}
		switch len(t.Args) {
		case 3:
			k.a2 = t.Args[2].ID
			fallthrough
		case 2:
			k.a1 = t.Args[1].ID
			fallthrough
		case 1:
			k.a0 = t.Args[0].ID
		}
		if x, ok := c.ktab[k]; ok {
			return x
		}
		t.ID = len(c.terms)
		c.terms = append(c.terms, t)
		c.ktab[k] = t
		return t
	}
	k := key(t)
	if x, ok := c.tab[k]; ok {
		return x
	}
	t.ID = len(c.terms)
	c.terms = append(c.terms, t)
	c.tab[k] = t
	return t
}

func mask(w int) uint64 {
	if w >= 64 {
		return ^uint64(0)
	}
	return (uint64(1) << uint(w)) - 1
}

func (c *Ctx) True() *Term  { return c.tt }
func (c *Ctx) False() *Term { return c.ff }
func (c *Ctx) BoolC(b bool) *Term {
	if b {
		return c.tt
	}
	return c.ff
}
func (c *Ctx) BVC(w int, v uint64) *Term {
	return c.mk(&Term{Op: OpConst, Sort: BV(w), C: v & mask(w)})
}
func (c *Ctx) F64C(f float64) *Term {
	return c.mk(&Term{Op: OpConst, Sort: F64, C: math.Float64bits(f)})
}
func (c *Ctx) F32C(f float32) *Term {
	return c.mk(&Term{Op: OpConst, Sort: F32, C: uint64(math.Float32bits(f))})
}
func (c *Ctx) FC(s Sort, f float64) *Term {
	if s.W == 32 {
		return c.F32C(float32(f))
	}
	return c.F64C(f)
}

// Var returns the variable with the given name (created on first use).
func (c *Ctx) Var(name string, s Sort) *Term {
	if v, ok := c.varByName[name]; ok {
		if v.Sort != s {
			panic("sym: variable " + name + " redeclared with different sort")
		}
		return v
	}
	v := c.mk(&Term{Op: OpVar, Sort: s, Name: name})
	c.varByName[name] = v
	c.Vars = append(c.Vars, v)
	return v
}

func (c *Ctx) node(op Op, s Sort, p0, p1 int, name string, args ...*Term) *Term {
	allc := true
	for _, a := range args {
		if a.Op != OpConst {
			allc = false
			break
		}
	}
	t := &Term{Op: op, Sort: s, Args: args, P0: p0, P1: p1, Name: name}
	if allc && op != OpUF {
		if v, ok := evalOp(t, func(i int) uint64 { return args[i].C }); ok {
			return c.mk(&Term{Op: OpConst, Sort: s, C: v})
		}
	}
	return c.mk(t)
}

// ---------- Bool ----------

func (c *Ctx) Not(a *Term) *Term {
	if a.Op == OpConst {
		return c.BoolC(a.C == 0)
	}
	if a.Op == OpNot {
		return a.Args[0]
	}
	return c.node(OpNot, Bool, 0, 0, "", a)
}
func (c *Ctx) And(a, b *Term) *Term {
	if a.IsFalse() || b.IsFalse() {
		return c.ff
	}
	if a.IsTrue() {
		return b
	}
	if b.IsTrue() {
		return a
	}
	if a == b {
		return a
	}
	return c.node(OpAnd, Bool, 0, 0, "", a, b)
}
func (c *Ctx) Or(a, b *Term) *Term {
	if a.IsTrue() || b.IsTrue() {
		return c.tt
	}
	if a.IsFalse() {
		return b
	}
	if b.IsFalse() {
		return a
	}
	if a == b {
		return a
	}
	return c.node(OpOr, Bool, 0, 0, "", a, b)
}
func (c *Ctx) AndN(ts ...*Term) *Term {
	r := c.tt
	for _, t := range ts {
		r = c.And(r, t)
	}
	return r
}
func (c *Ctx) OrN(ts ...*Term) *Term {
	r := c.ff
	for _, t := range ts {
		r = c.Or(r, t)
	}
	return r
}
func (c *Ctx) Implies(a, b *Term) *Term { return c.Or(c.Not(a), b) }

func (c *Ctx) Ite(cond, a, b *Term) *Term {
	if cond.IsTrue() {
		return a
	}
	if cond.IsFalse() {
		return b
	}
	if a == b {
		return a
	}
	if a.Sort != b.Sort {
		panic(fmt.Sprintf("sym: ite sort mismatch %v %v", a.Sort, b.Sort))
	}
	if a.Sort.K == KBool {
		if a.IsTrue() && b.IsFalse() {
			return cond
		}
		if a.IsFalse() && b.IsTrue() {
			return c.Not(cond)
		}
	}
	return c.node(OpIte, a.Sort, 0, 0, "", cond, a, b)
}

// Eq is structural equality for Bool/BV; for FP it is bitwise (SMT =) equality.
func (c *Ctx) Eq(a, b *Term) *Term {
	if a.Sort != b.Sort {
		panic(fmt.Sprintf("sym: eq sort mismatch %v %v (%v, %v)", a.Sort, b.Sort, a, b))
	}
	if a == b {
		return c.tt
	}
	if a.Op == OpConst && b.Op == OpConst {
		return c.BoolC(a.C == b.C)
	}
	if a.Sort.K == KBool {
		if a.IsTrue() {
			return b
		}
		if b.IsTrue() {
			return a
		}
		if a.IsFalse() {
			return c.Not(b)
		}
		if b.IsFalse() {
			return c.Not(a)
		}
	}
	if a.ID > b.ID {
		a, b = b, a
	}
	return c.node(OpEq, Bool, 0, 0, "", a, b)
}

// ---------- BV ----------

func (c *Ctx) bin(op Op, a, b *Term) *Term {
	if a.Sort != b.Sort {
		panic(fmt.Sprintf("sym: binop %d sort mismatch %v %v", op, a.Sort, b.Sort))
	}
	return c.node(op, a.Sort, 0, 0, "", a, b)
}
func (c *Ctx) cmp(op Op, a, b *Term) *Term {
	if a.Sort != b.Sort {
		panic(fmt.Sprintf("sym: cmp %d sort mismatch %v %v", op, a.Sort, b.Sort))
	}
	return c.node(op, Bool, 0, 0, "", a, b)
}
// cmpFToS: signed comparison of int64(monotone FP chain over an integer) with
// a constant becomes a comparison on the integer leaf (see mono.go).
func (c *Ctx) cmpFToS(a, b *Term, opL, opR int) *Term {
	if a.Sort.W != 64 {
		return nil
	}
	if a.Op == OpFToS && b.Op == OpConst {
		return c.cmpToIntConst(a.Args[0], opL, int64(b.C))
	}
	if b.Op == OpFToS && a.Op == OpConst {
		return c.cmpToIntConst(b.Args[0], opR, int64(a.C))
	}
	return nil
}
func isZero(t *Term) bool { return t.Op == OpConst && t.C == 0 }
func isOne(t *Term) bool  { return t.Op == OpConst && t.C == 1 }

func (c *Ctx) Add(a, b *Term) *Term {
	if isZero(a) {
		return b
	}
	if isZero(b) {
		return a
	}
	if a.Op == OpConst && b.Op != OpConst {
		a, b = b, a
	}
	// (x + c1) + c2 => x + (c1+c2)
	if b.Op == OpConst && a.Op == OpAdd && a.Args[1].Op == OpConst {
		return c.Add(a.Args[0], c.BVC(a.Sort.W, a.Args[1].C+b.C))
	}
	return c.bin(OpAdd, a, b)
}
func (c *Ctx) Sub(a, b *Term) *Term {
	if isZero(b) {
		return a
	}
	if a == b {
		return c.BVC(a.Sort.W, 0)
	}
	if b.Op == OpConst {
		return c.Add(a, c.BVC(a.Sort.W, -b.C))
	}
	return c.bin(OpSub, a, b)
}
func (c *Ctx) Mul(a, b *Term) *Term {
	if isZero(a) || isZero(b) {
		return c.BVC(a.Sort.W, 0)
	}
	if isOne(a) {
		return b
	}
	if isOne(b) {
		return a
	}
	if a.Op == OpConst && b.Op != OpConst {
		a, b = b, a
	}
	return c.bin(OpMul, a, b)
}
func pow2(t *Term) (int, bool) {
	if t.Op != OpConst || t.C == 0 || t.C&(t.C-1) != 0 {
		return 0, false
	}
	return bits.TrailingZeros64(t.C), true
}

func (c *Ctx) UDiv(a, b *Term) *Term {
	if isOne(b) {
		return a
	}
	if k, ok := pow2(b); ok && a.Op != OpConst {
		return c.LShr(a, c.BVC(a.Sort.W, uint64(k)))
	}
	return c.bin(OpUDiv, a, b)
}
func (c *Ctx) SDiv(a, b *Term) *Term {
	if isOne(b) {
		return a
	}
	// x / 2^k (truncating) = (x + ((x >>s w-1) & (2^k-1))) >>s k
	if k, ok := pow2(b); ok && a.Op != OpConst && k > 0 && k < a.Sort.W-1 {
		w := a.Sort.W
		sign := c.AShr(a, c.BVC(w, uint64(w-1)))
		bias := c.bin(OpBAnd, sign, c.BVC(w, (uint64(1)<<uint(k))-1))
		return c.AShr(c.Add(a, bias), c.BVC(w, uint64(k)))
	}
	return c.bin(OpSDiv, a, b)
}
func (c *Ctx) URem(a, b *Term) *Term {
	if k, ok := pow2(b); ok && a.Op != OpConst {
		return c.BAnd(a, c.BVC(a.Sort.W, (uint64(1)<<uint(k))-1))
	}
	return c.bin(OpURem, a, b)
}
func (c *Ctx) SRem(a, b *Term) *Term { return c.bin(OpSRem, a, b) }
// lowBits returns a simplified term equal to x mod 2^k (same width, value
// < 2^k), or nil if nothing is known structurally.
func (c *Ctx) lowBits(x *Term, k int) *Term {
	w := x.Sort.W
	lm := (uint64(1) << uint(k)) - 1
	switch x.Op {
	case OpConst:
		return c.BVC(w, x.C&lm)
	case OpShl:
		if x.Args[1].Op == OpConst && x.Args[1].C >= uint64(k) {
			return c.BVC(w, 0)
		}
	case OpMul:
		if x.Args[1].Op == OpConst && x.Args[1].C&lm == 0 {
			return c.BVC(w, 0)
		}
	case OpBAnd:
		if x.Args[1].Op == OpConst {
			m := x.Args[1].C
			if m&^lm == 0 {
				return x // already below 2^k
			}
			if m&lm == 0 {
				return c.BVC(w, 0)
			}
		}
	case OpAdd, OpBOr, OpSub:
		la, lb := c.lowBits(x.Args[0], k), c.lowBits(x.Args[1], k)
		if la == nil || lb == nil {
			return nil
		}
		if x.Op == OpBOr {
			return c.BOr(la, lb)
		}
		if x.Op == OpAdd {
			if isZero(la) {
				return lb
			}
			if isZero(lb) {
				return la
			}
			return c.bin(OpBAnd, c.Add(la, lb), c.BVC(w, lm))
		}
		if isZero(lb) {
			return la
		}
		return c.bin(OpBAnd, c.Sub(la, lb), c.BVC(w, lm))
	case OpZExt:
		if x.Args[0].Sort.W <= k {
			return x
		}
	}
	return nil
}

func (c *Ctx) BAnd(a, b *Term) *Term {
	if isZero(a) || isZero(b) {
		return c.BVC(a.Sort.W, 0)
	}
	if a == b {
		return a
	}
	if a.Op == OpConst && a.C == mask(a.Sort.W) {
		return b
	}
	if b.Op == OpConst && b.C == mask(b.Sort.W) {
		return a
	}
	if a.Op == OpConst && b.Op != OpConst {
		a, b = b, a
	}
	if b.Op == OpConst && a.Op != OpConst {
		w := a.Sort.W
		m := b.C
		// low mask 2^k-1
		if m&(m+1) == 0 {
			k := bits.Len64(m)
			if lb := c.lowBits(a, k); lb != nil {
				return lb
			}
		} else if inv := ^m & mask(w); inv&(inv+1) == 0 && inv != 0 {
			// high mask ^(2^k-1): x - (x mod 2^k) when x mod 2^k is structurally known
			k := bits.Len64(inv)
			if lb := c.lowBits(a, k); lb != nil {
				return c.Sub(a, lb)
			}
		}
		// (x & m1) & m2
		if a.Op == OpBAnd && a.Args[1].Op == OpConst {
			return c.BAnd(a.Args[0], c.BVC(w, a.Args[1].C&m))
		}
	}
	return c.bin(OpBAnd, a, b)
}
func (c *Ctx) BOr(a, b *Term) *Term {
	if isZero(a) {
		return b
	}
	if isZero(b) {
		return a
	}
	if a == b {
		return a
	}
	return c.bin(OpBOr, a, b)
}
func (c *Ctx) BXor(a, b *Term) *Term {
	if isZero(a) {
		return b
	}
	if isZero(b) {
		return a
	}
	if a == b {
		return c.BVC(a.Sort.W, 0)
	}
	return c.bin(OpBXor, a, b)
}
func (c *Ctx) Shl(a, b *Term) *Term {
	if isZero(b) {
		return a
	}
	return c.bin(OpShl, a, b)
}
func (c *Ctx) LShr(a, b *Term) *Term {
	if isZero(b) {
		return a
	}
	return c.bin(OpLShr, a, b)
}
func (c *Ctx) AShr(a, b *Term) *Term {
	if isZero(b) {
		return a
	}
	return c.bin(OpAShr, a, b)
}
func (c *Ctx) Neg(a *Term) *Term {
	if a.Op == OpNeg {
		return a.Args[0]
	}
	return c.node(OpNeg, a.Sort, 0, 0, "", a)
}
func (c *Ctx) BNot(a *Term) *Term {
	if a.Op == OpBNot {
		return a.Args[0]
	}
	return c.node(OpBNot, a.Sort, 0, 0, "", a)
}
func (c *Ctx) ULt(a, b *Term) *Term {
	if a == b {
		return c.ff
	}
	return c.cmp(OpULt, a, b)
}
func (c *Ctx) ULe(a, b *Term) *Term {
	if a == b {
		return c.tt
	}
	return c.cmp(OpULe, a, b)
}
func (c *Ctx) SLt(a, b *Term) *Term {
	if a == b {
		return c.ff
	}
	if r := c.cmpFToS(a, b, 3, 1); r != nil {
		return r
	}
	return c.cmp(OpSLt, a, b)
}
func (c *Ctx) SLe(a, b *Term) *Term {
	if a == b {
		return c.tt
	}
	if r := c.cmpFToS(a, b, 2, 0); r != nil {
		return r
	}
	return c.cmp(OpSLe, a, b)
}
func (c *Ctx) ZExt(a *Term, w int) *Term {
	if w == a.Sort.W {
		return a
	}
	if w < a.Sort.W {
		return c.Extract(a, w-1, 0)
	}
	return c.node(OpZExt, BV(w), w-a.Sort.W, 0, "", a)
}
func (c *Ctx) SExt(a *Term, w int) *Term {
	if w == a.Sort.W {
		return a
	}
	if w < a.Sort.W {
		return c.Extract(a, w-1, 0)
	}
	return c.node(OpSExt, BV(w), w-a.Sort.W, 0, "", a)
}
func (c *Ctx) Extract(a *Term, hi, lo int) *Term {
	if lo == 0 && hi == a.Sort.W-1 {
		return a
	}
	// extract of zext/sext within the original width
	if (a.Op == OpZExt || a.Op == OpSExt) && hi < a.Args[0].Sort.W {
		return c.Extract(a.Args[0], hi, lo)
	}
	return c.node(OpExtract, BV(hi-lo+1), hi, lo, "", a)
}
func (c *Ctx) Concat(hi, lo *Term) *Term {
	return c.node(OpConcat, BV(hi.Sort.W+lo.Sort.W), 0, 0, "", hi, lo)
}

// ---------- FP ----------

func (c *Ctx) fbin(op Op, a, b *Term) *Term {
	if a.Sort != b.Sort {
		panic("sym: fp sort mismatch")
	}
	return c.node(op, a.Sort, 0, 0, "", a, b)
}
func (c *Ctx) FAdd(a, b *Term) *Term { return c.fbin(OpFAdd, a, b) }
func (c *Ctx) FSub(a, b *Term) *Term { return c.fbin(OpFSub, a, b) }
func isFOne(t *Term) bool {
	return t.Op == OpConst && t.Sort.K == KFP && fval(t.Sort, t.C) == 1
}

// NeverNaN reports (conservatively) that t cannot be NaN.
func NeverNaN(t *Term) bool {
	switch t.Op {
	case OpConst:
		f := fval(t.Sort, t.C)
		return f == f
	case OpSToF, OpUToF:
		return true
	case OpFNeg, OpFAbs, OpFRnd:
		return NeverNaN(t.Args[0])
	case OpFMul:
		// finite non-NaN operand times a finite non-zero constant is never NaN
		return (finiteNonZeroConst(t.Args[1]) && NeverNaN(t.Args[0])) || (finiteNonZeroConst(t.Args[0]) && NeverNaN(t.Args[1]))
	case OpFDiv:
		return finiteNonZeroConst(t.Args[1]) && NeverNaN(t.Args[0])
	case OpIte:
		return NeverNaN(t.Args[1]) && NeverNaN(t.Args[2])
	}
	return false
}

func finiteNonZeroConst(t *Term) bool {
	if t.Op != OpConst {
		return false
	}
	f := fval(t.Sort, t.C)
	return f == f && f != 0 && !math.IsInf(f, 0)
}

func negConst(t *Term) bool {
	return t.Op == OpConst && t.Sort.K == KFP && math.Signbit(fval(t.Sort, t.C)) && fval(t.Sort, t.C) == fval(t.Sort, t.C)
}

// The rewrites below are exact in IEEE-754 with round-to-nearest-even
// (sign symmetry of rounding; x*1 = x/1 = x); SMT-LIB has a single NaN so
// NaN sign/payload is not an issue.
// pow2Exp returns k if t is the constant 2^k (|k| <= 1000).
func pow2Exp(t *Term) (int, bool) {
	if t.Op != OpConst || t.Sort != F64 {
		return 0, false
	}
	f := fval(t.Sort, t.C)
	if !(f > 0) || math.IsInf(f, 0) {
		return 0, false
	}
	fr, e := math.Frexp(f)
	if fr != 0.5 || e-1 < -1000 || e-1 > 1000 {
		return 0, false
	}
	return e - 1, true
}

// intDerived reports that t is ±float(int) (zero, or magnitude in [1, 2^64]).
func intDerived(t *Term) bool {
	switch t.Op {
	case OpSToF, OpUToF:
		return t.Sort == F64
	case OpFNeg, OpFAbs:
		return intDerived(t.Args[0])
	}
	return false
}

// scalePow2 implements (base*2^K) scaled by 2^k exactly: scaling an
// int-derived double by a power of two with |exponent| <= 900 never rounds.
func (c *Ctx) scalePow2(a *Term, k int) *Term {
	base, K := a, 0
	if a.Op == OpFMul {
		if e, ok := pow2Exp(a.Args[1]); ok && intDerived(a.Args[0]) {
			base, K = a.Args[0], e
		}
	}
	if !intDerived(base) {
		return nil
	}
	n := K + k
	if n < -900 || n > 900 {
		return nil
	}
	if n == 0 {
		return base
	}
	return c.fbin(OpFMul, base, c.F64C(math.Ldexp(1, n)))
}

func (c *Ctx) FMul(a, b *Term) *Term {
	if a.Op == OpConst && b.Op != OpConst {
		a, b = b, a
	}
	if isFOne(b) {
		return a
	}
	if k, ok := pow2Exp(b); ok && a.Op != OpConst && a.Op != OpFNeg {
		if r := c.scalePow2(a, k); r != nil {
			return r
		}
	}
	// finite * 0 = signed zero
	if b.Op == OpConst && b.Sort == F64 && fval(b.Sort, b.C) == 0 && intDerived(a) {
		neg := c.FLt(a, c.F64C(0))
		if math.Signbit(fval(b.Sort, b.C)) {
			neg = c.FLt(c.F64C(0), a)
		}
		return c.Ite(neg, c.F64C(math.Copysign(0, -1)), c.F64C(0))
	}
	if a.Op == OpFNeg {
		return c.FNeg(c.FMul(a.Args[0], b))
	}
	if b.Op == OpFNeg {
		return c.FNeg(c.FMul(a, b.Args[0]))
	}
	if negConst(b) && a.Op != OpConst {
		return c.FNeg(c.FMul(a, c.FC(b.Sort, -fval(b.Sort, b.C))))
	}
	return c.fbin(OpFMul, a, b)
}
func (c *Ctx) FDiv(a, b *Term) *Term {
	if isFOne(b) {
		return a
	}
	if k, ok := pow2Exp(b); ok && a.Op != OpConst && a.Op != OpFNeg {
		if r := c.scalePow2(a, -k); r != nil {
			return r
		}
	}
	if a.Op == OpFNeg {
		return c.FNeg(c.FDiv(a.Args[0], b))
	}
	if b.Op == OpFNeg {
		return c.FNeg(c.FDiv(a, b.Args[0]))
	}
	if negConst(b) && a.Op != OpConst {
		return c.FNeg(c.FDiv(a, c.FC(b.Sort, -fval(b.Sort, b.C))))
	}
	return c.fbin(OpFDiv, a, b)
}
func (c *Ctx) FNeg(a *Term) *Term {
	if a.Op == OpFNeg {
		return a.Args[0]
	}
	return c.node(OpFNeg, a.Sort, 0, 0, "", a)
}
func (c *Ctx) FAbs(a *Term) *Term {
	switch a.Op {
	case OpFNeg, OpFAbs:
		return c.FAbs(a.Args[0])
	case OpFMul:
		return c.FMul(c.FAbs(a.Args[0]), c.FAbs(a.Args[1]))
	case OpFDiv:
		return c.FDiv(c.FAbs(a.Args[0]), c.FAbs(a.Args[1]))
	}
	return c.node(OpFAbs, a.Sort, 0, 0, "", a)
}
func (c *Ctx) FSqrt(a *Term) *Term   { return c.node(OpFSqrt, a.Sort, 0, 0, "", a) }
func (c *Ctx) FLt(a, b *Term) *Term {
	if a == b {
		return c.ff
	}
	if a.Op == OpConst && b.Op != OpConst {
		if r := c.cmpConst(b, 1, fval(a.Sort, a.C)); r != nil {
			return r
		}
	}
	if b.Op == OpConst && a.Op != OpConst {
		if r := c.cmpConst(a, 3, fval(b.Sort, b.C)); r != nil {
			return r
		}
	}
	return c.node(OpFLt, Bool, 0, 0, "", a, b)
}
func (c *Ctx) FLe(a, b *Term) *Term {
	if a == b && NeverNaN(a) {
		return c.tt
	}
	if a.Op == OpConst && b.Op != OpConst {
		if r := c.cmpConst(b, 0, fval(a.Sort, a.C)); r != nil {
			return r
		}
	}
	if b.Op == OpConst && a.Op != OpConst {
		if r := c.cmpConst(a, 2, fval(b.Sort, b.C)); r != nil {
			return r
		}
	}
	return c.node(OpFLe, Bool, 0, 0, "", a, b)
}
func (c *Ctx) FEq(a, b *Term) *Term {
	if a == b && NeverNaN(a) {
		return c.tt
	}
	if a.Op == OpConst && b.Op != OpConst {
		a, b = b, a
	}
	if b.Op == OpConst && a.Op != OpConst {
		k := fval(b.Sort, b.C)
		if r1 := c.cmpConst(a, 0, k); r1 != nil {
			if r2 := c.cmpConst(a, 2, k); r2 != nil {
				return c.And(r1, r2)
			}
		}
	}
	return c.node(OpFEq, Bool, 0, 0, "", a, b)
}
func (c *Ctx) FRnd(a *Term, mode int) *Term {
	// an int-derived double is integral already, also after scaling up by 2^k
	if intDerived(a) {
		return a
	}
	if a.Op == OpFMul && intDerived(a.Args[0]) {
		if k, ok := pow2Exp(a.Args[1]); ok && k >= 0 {
			return a
		}
	}
	// math.Round (ties away from zero) and trunc are sign symmetric
	if a.Op == OpFNeg && (mode == 0 || mode == 3 || mode == 4) {
		return c.FNeg(c.FRnd(a.Args[0], mode))
	}
	return c.node(OpFRnd, a.Sort, mode, 0, "", a)
}
func (c *Ctx) SToF(a *Term, s Sort) *Term { return c.node(OpSToF, s, 0, 0, "", a) }
func (c *Ctx) UToF(a *Term, s Sort) *Term { return c.node(OpUToF, s, 0, 0, "", a) }
func (c *Ctx) FToS(a *Term, w int) *Term {
	if w == 64 {
		if r := c.smallFToS(a); r != nil {
			return r
		}
	}
	return c.node(OpFToS, BV(w), 0, 0, "", a)
}
func (c *Ctx) FToU(a *Term, w int) *Term  { return c.node(OpFToU, BV(w), 0, 0, "", a) }
func (c *Ctx) FIsNaN(a *Term) *Term       { return c.node(OpFIsNaN, Bool, 0, 0, "", a) }
func (c *Ctx) FIsInf(a *Term) *Term       { return c.node(OpFIsInf, Bool, 0, 0, "", a) }
func (c *Ctx) FToF(a *Term, s Sort) *Term {
	if a.Sort == s {
		return a
	}
	return c.node(OpFToF, s, 0, 0, "", a)
}
func (c *Ctx) FBits(a *Term) *Term { // bv64 -> f64
	return c.node(OpFBits, Sort{KFP, a.Sort.W}, 0, 0, "", a)
}
func (c *Ctx) UF(name string, s Sort, args ...*Term) *Term {
	return c.node(OpUF, s, 0, 0, name, args...)
}

// ---------- evaluation ----------

func sx(v uint64, w int) int64 {
	if w >= 64 {
		return int64(v)
	}
	sh := uint(64 - w)
	return int64(v<<sh) >> sh
}

func fval(s Sort, bitsv uint64) float64 {
	if s.W == 32 {
		return float64(math.Float32frombits(uint32(bitsv)))
	}
	return math.Float64frombits(bitsv)
}
func fbits(s Sort, f float64) uint64 {
	if s.W == 32 {
		return uint64(math.Float32bits(float32(f)))
	}
	return math.Float64bits(f)
}

// evalOp computes t's value given its argument values. ok=false if the
// value is unspecified (division by zero, out-of-range fp->int).
func evalOp(t *Term, arg func(i int) uint64) (uint64, bool) {
	b := func(x bool) (uint64, bool) {
		if x {
			return 1, true
		}
		return 0, true
	}
	w := t.Sort.W
	m := mask(w)
	var aw int
	var as Sort
	if len(t.Args) > 0 {
		as = t.Args[0].Sort
		aw = as.W
	}
	switch t.Op {
	case OpNot:
		return b(arg(0) == 0)
	case OpAnd:
		return b(arg(0) == 1 && arg(1) == 1)
	case OpOr:
		return b(arg(0) == 1 || arg(1) == 1)
	case OpIte:
		if arg(0) == 1 {
			return arg(1), true
		}
		return arg(2), true
	case OpEq:
		return b(arg(0) == arg(1))
	case OpAdd:
		return (arg(0) + arg(1)) & m, true
	case OpSub:
		return (arg(0) - arg(1)) & m, true
	case OpMul:
		return (arg(0) * arg(1)) & m, true
	case OpUDiv:
		if arg(1) == 0 {
			return m, true // SMT-LIB semantics
		}
		return arg(0) / arg(1), true
	case OpURem:
		if arg(1) == 0 {
			return arg(0), true
		}
		return arg(0) % arg(1), true
	case OpSDiv:
		x, y := sx(arg(0), w), sx(arg(1), w)
		if y == 0 {
			if x >= 0 {
				return m, true
			}
			return 1, true
		}
		if y == -1 {
			return uint64(-x) & m, true
		}
		return uint64(x/y) & m, true
	case OpSRem:
		x, y := sx(arg(0), w), sx(arg(1), w)
		if y == 0 {
			return arg(0), true
		}
		if y == -1 {
			return 0, true
		}
		return uint64(x%y) & m, true
	case OpBAnd:
		return arg(0) & arg(1), true
	case OpBOr:
		return arg(0) | arg(1), true
	case OpBXor:
		return arg(0) ^ arg(1), true
	case OpShl:
		if arg(1) >= uint64(w) {
			return 0, true
		}
		return (arg(0) << arg(1)) & m, true
	case OpLShr:
		if arg(1) >= uint64(w) {
			return 0, true
		}
		return arg(0) >> arg(1), true
	case OpAShr:
		s := arg(1)
		if s >= uint64(w) {
			s = uint64(w - 1)
		}
		return uint64(sx(arg(0), w)>>s) & m, true
	case OpNeg:
		return (-arg(0)) & m, true
	case OpBNot:
		return (^arg(0)) & m, true
	case OpULt:
		return b(arg(0) < arg(1))
	case OpULe:
		return b(arg(0) <= arg(1))
	case OpSLt:
		return b(sx(arg(0), aw) < sx(arg(1), aw))
	case OpSLe:
		return b(sx(arg(0), aw) <= sx(arg(1), aw))
	case OpZExt:
		return arg(0), true
	case OpSExt:
		return uint64(sx(arg(0), aw)) & m, true
	case OpExtract:
		return (arg(0) >> uint(t.P1)) & mask(t.P0-t.P1+1), true
	case OpConcat:
		return (arg(0)<<uint(t.Args[1].Sort.W) | arg(1)) & m, true
	case OpFAdd:
		return fres(t.Sort, fval(as, arg(0))+fval(as, arg(1)), as, arg(0), arg(1), '+'), true
	case OpFSub:
		return fres(t.Sort, 0, as, arg(0), arg(1), '-'), true
	case OpFMul:
		return fres(t.Sort, 0, as, arg(0), arg(1), '*'), true
	case OpFDiv:
		return fres(t.Sort, 0, as, arg(0), arg(1), '/'), true
	case OpFNeg:
		return fbits(t.Sort, -fval(as, arg(0))), true
	case OpFAbs:
		return fbits(t.Sort, math.Abs(fval(as, arg(0)))), true
	case OpFSqrt:
		if as.W == 32 {
			return uint64(math.Float32bits(float32(math.Sqrt(float64(math.Float32frombits(uint32(arg(0)))))))), true
		}
		return fbits(t.Sort, math.Sqrt(fval(as, arg(0)))), true
	case OpFLt:
		return b(fval(as, arg(0)) < fval(as, arg(1)))
	case OpFLe:
		return b(fval(as, arg(0)) <= fval(as, arg(1)))
	case OpFEq:
		return b(fval(as, arg(0)) == fval(as, arg(1)))
	case OpFRnd:
		f := fval(as, arg(0))
		switch t.P0 {
		case 0:
			f = math.Round(f)
		case 1:
			f = math.Floor(f)
		case 2:
			f = math.Ceil(f)
		case 3:
			f = math.Trunc(f)
		case 4:
			f = math.RoundToEven(f)
		}
		return fbits(t.Sort, f), true
	case OpSToF:
		if t.Sort.W == 32 {
			return uint64(math.Float32bits(float32(sx(arg(0), aw)))), true
		}
		return math.Float64bits(float64(sx(arg(0), aw))), true
	case OpUToF:
		if t.Sort.W == 32 {
			return uint64(math.Float32bits(float32(arg(0)))), true
		}
		return math.Float64bits(float64(arg(0))), true
	case OpFToS:
		f := math.Trunc(fval(as, arg(0)))
		lim := math.Ldexp(1, w-1)
		if f != f || f >= lim || f < -lim {
			return 0, false
		}
		return uint64(int64(f)) & m, true
	case OpFToU:
		f := math.Trunc(fval(as, arg(0)))
		lim := math.Ldexp(1, w)
		if f != f || f >= lim || f < 0 {
			return 0, false
		}
		return uint64(f) & m, true
	case OpFIsNaN:
		f := fval(as, arg(0))
		return b(f != f)
	case OpFIsInf:
		return b(math.IsInf(fval(as, arg(0)), 0))
	case OpFToF:
		return fbits(t.Sort, fval(as, arg(0))), true
	case OpFBits:
		return arg(0), true
	}
	return 0, false
}

func fres(s Sort, _ float64, as Sort, a, b uint64, op byte) uint64 {
	if as.W == 32 {
		x, y := math.Float32frombits(uint32(a)), math.Float32frombits(uint32(b))
		var r float32
		switch op {
		case '+':
			r = x + y
		case '-':
			r = x - y
		case '*':
			r = x * y
		case '/':
			r = x / y
		}
		return uint64(math.Float32bits(r))
	}
	x, y := math.Float64frombits(a), math.Float64frombits(b)
	var r float64
	switch op {
	case '+':
		r = x + y
	case '-':
		r = x - y
	case '*':
		r = x * y
	case '/':
		r = x / y
	}
	return math.Float64bits(r)
}

// Model maps variable names to values (bool 0/1, bv bits, fp bits).
type Model map[string]uint64

// Eval evaluates t under m; unknown variables evaluate to 0. UFs evaluate
// through m["uf:"+name+args] if present, else 0. ok=false on unspecified ops.
func Eval(t *Term, m Model) (uint64, bool) {
	cache := map[int]uint64{}
	okAll := true
	var ev func(t *Term) uint64
	ev = func(t *Term) uint64 {
		switch t.Op {
		case OpConst:
			return t.C
		case OpVar:
			return m[t.Name]
		}
		if v, ok := cache[t.ID]; ok {
			return v
		}
		vals := make([]uint64, len(t.Args))
		if t.Op == OpIte {
			vals[0] = ev(t.Args[0])
			if vals[0] == 1 {
				vals[1] = ev(t.Args[1])
			} else {
				vals[2] = ev(t.Args[2])
			}
		} else {
			for i, a := range t.Args {
				vals[i] = ev(a)
			}
		}
		var v uint64
		if t.Op == OpUF {
			k := "uf:" + t.Name
			for _, x := range vals {
				k += fmt.Sprintf(",%x", x)
			}
			v = m[k]
		} else {
			var ok bool
			v, ok = evalOp(t, func(i int) uint64 { return vals[i] })
			if !ok {
				okAll = false
			}
		}
		cache[t.ID] = v
		return v
	}
	v := ev(t)
	return v, okAll
}

var _ = bits.Len64

// ---------- SMT printing ----------

func opName(t *Term) string {
	switch t.Op {
	case OpNot:
		return "not"
	case OpAnd:
		return "and"
	case OpOr:
		return "or"
	case OpIte:
		return "ite"
	case OpEq:
		return "="
	case OpAdd:
		return "bvadd"
	case OpSub:
		return "bvsub"
	case OpMul:
		return "bvmul"
	case OpUDiv:
		return "bvudiv"
	case OpSDiv:
		return "bvsdiv"
	case OpURem:
		return "bvurem"
	case OpSRem:
		return "bvsrem"
	case OpBAnd:
		return "bvand"
	case OpBOr:
		return "bvor"
	case OpBXor:
		return "bvxor"
	case OpShl:
		return "bvshl"
	case OpLShr:
		return "bvlshr"
	case OpAShr:
		return "bvashr"
	case OpNeg:
		return "bvneg"
	case OpBNot:
		return "bvnot"
	case OpULt:
		return "bvult"
	case OpULe:
		return "bvule"
	case OpSLt:
		return "bvslt"
	case OpSLe:
		return "bvsle"
	case OpZExt:
		return fmt.Sprintf("(_ zero_extend %d)", t.P0)
	case OpSExt:
		return fmt.Sprintf("(_ sign_extend %d)", t.P0)
	case OpExtract:
		return fmt.Sprintf("(_ extract %d %d)", t.P0, t.P1)
	case OpConcat:
		return "concat"
	case OpFAdd:
		return "fp.add RNE"
	case OpFSub:
		return "fp.sub RNE"
	case OpFMul:
		return "fp.mul RNE"
	case OpFDiv:
		return "fp.div RNE"
	case OpFNeg:
		return "fp.neg"
	case OpFAbs:
		return "fp.abs"
	case OpFSqrt:
		return "fp.sqrt RNE"
	case OpFLt:
		return "fp.lt"
	case OpFLe:
		return "fp.leq"
	case OpFEq:
		return "fp.eq"
	case OpFRnd:
		return "fp.roundToIntegral " + [...]string{"RNA", "RTN", "RTP", "RTZ", "RNE"}[t.P0]
	case OpSToF:
		return fpTo(t.Sort) + " RNE"
	case OpUToF:
		return strings.Replace(fpTo(t.Sort), "to_fp", "to_fp_unsigned", 1) + " RNE"
	case OpFToS:
		return fmt.Sprintf("(_ fp.to_sbv %d) RTZ", t.Sort.W)
	case OpFToU:
		return fmt.Sprintf("(_ fp.to_ubv %d) RTZ", t.Sort.W)
	case OpFIsNaN:
		return "fp.isNaN"
	case OpFIsInf:
		return "fp.isInfinite"
	case OpFToF:
		return fpTo(t.Sort) + " RNE"
	case OpFBits:
		return fpTo(t.Sort)
	case OpUF:
		return t.Name
	}
	return fmt.Sprintf("op%d", t.Op)
}

func fpTo(s Sort) string {
	if s.W == 32 {
		return "(_ to_fp 8 24)"
	}
	return "(_ to_fp 11 53)"
}

func constSMT(t *Term) string {
	switch t.Sort.K {
	case KBool:
		if t.C == 1 {
			return "true"
		}
		return "false"
	case KBV:
		if t.Sort.W%4 == 0 {
			return fmt.Sprintf("#x%0*x", t.Sort.W/4, t.C)
		}
		return fmt.Sprintf("#b%0*b", t.Sort.W, t.C)
	default:
		if t.Sort.W == 32 {
			return fmt.Sprintf("((_ to_fp 8 24) #x%08x)", t.C)
		}
		return fmt.Sprintf("((_ to_fp 11 53) #x%016x)", t.C)
	}
}

// Ref returns the SMT text that refers to t (a constant, a variable name, or tN).
func Ref(t *Term) string {
	switch t.Op {
	case OpConst:
		return constSMT(t)
	case OpVar:
		return "|" + t.Name + "|"
	}
	return fmt.Sprintf("t%d", t.ID)
}

// Def returns the definition body of a non-leaf term in terms of Refs of its args.
func Def(t *Term) string {
	var sb strings.Builder
	sb.WriteByte('(')
	sb.WriteString(opName(t))
	for _, a := range t.Args {
		sb.WriteByte(' ')
		sb.WriteString(Ref(a))
	}
	sb.WriteByte(')')
	return sb.String()
}
