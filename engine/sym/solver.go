package sym

import (
	"os"
	"bufio"
	"fmt"
	"io"
	"os/exec"
	"strconv"
	"strings"
	"time"
)

type Result int

const (
	Unsat Result = iota
	Sat
	Unknown
)

func (r Result) String() string { return [...]string{"unsat", "sat", "unknown"}[r] }

// Solver drives one SMT solver process over a pipe, with an assertion stack.
type Solver struct {
	Kind    string // z3 | z3-new | cvc5
	cmd     *exec.Cmd
	in      io.WriteCloser
	out     *bufio.Reader
	emitted map[int]bool
	ufs     map[string]bool
	levels  []*Term // asserted term per level
	Queries int
	NSat, NUnsat, NUnknown int
	Time    time.Duration
	TimeoutMs int
	Log     io.Writer // optional transcript
	LastErr string
	lastHadExtra bool
	lastModel Model
	AllVars func() []*Term
}

func NewSolver(kind string, timeoutMs int) (*Solver, error) {
	s := &Solver{Kind: kind, emitted: map[int]bool{}, ufs: map[string]bool{}, TimeoutMs: timeoutMs}
	if err := s.start(); err != nil {
		return nil, err
	}
	return s, nil
}

func (s *Solver) oneshot() bool { return strings.HasSuffix(s.Kind, "-oneshot") }

func (s *Solver) start() error {
	if s.oneshot() {
		return nil
	}
	var cmd *exec.Cmd
	switch s.Kind {
	case "z3":
		cmd = exec.Command("/usr/bin/z3", "-in", "-smt2")
	case "z3-new":
		cmd = exec.Command("z3-new", "-in", "-smt2")
	case "cvc5":
		cmd = exec.Command("cvc5", "--incremental", "--lang", "smt2", "--produce-models", fmt.Sprintf("--tlimit-per=%d", s.TimeoutMs))
	case "cvc5-int":
		cmd = exec.Command("cvc5", "--incremental", "--lang", "smt2", "--produce-models", "--solve-bv-as-int=sum", fmt.Sprintf("--tlimit-per=%d", s.TimeoutMs))
	default:
		return fmt.Errorf("unknown solver %q", s.Kind)
	}
	in, err := cmd.StdinPipe()
	if err != nil {
		return err
	}
	out, err := cmd.StdoutPipe()
	if err != nil {
		return err
	}
	cmd.Stderr = cmd.Stdout
	if err := cmd.Start(); err != nil {
		return err
	}
	s.cmd, s.in, s.out = cmd, in, bufio.NewReaderSize(out, 1<<16)
	if p := os.Getenv("GOSYMX_SMTLOG"); p != "" && s.Log == nil {
		f, _ := os.OpenFile(fmt.Sprintf("%s.%d", p, cmd.Process.Pid), os.O_CREATE|os.O_WRONLY|os.O_TRUNC, 0o644)
		s.Log = f
	}
	if strings.HasPrefix(s.Kind, "cvc5") {
		s.send("(set-option :global-declarations true)")
		s.send("(set-logic ALL)")
	} else {
		s.send("(set-option :global-decls true)")
		s.send("(set-option :produce-models true)")
		s.send(fmt.Sprintf("(set-option :timeout %d)", s.TimeoutMs))
	}
	return nil
}

func (s *Solver) Close() {
	if s.cmd != nil {
		s.in.Close()
		s.cmd.Process.Kill()
		s.cmd.Wait()
		s.cmd = nil
	}
}

// Restart kills the process and starts a fresh one (empty stack).
func (s *Solver) Restart() error {
	s.Close()
	s.emitted = map[int]bool{}
	s.ufs = map[string]bool{}
	s.levels = nil
	return s.start()
}

func (s *Solver) send(line string) {
	if s.cmd == nil {
		return
	}
	if s.Log != nil {
		fmt.Fprintln(s.Log, line)
	}
	io.WriteString(s.in, line)
	io.WriteString(s.in, "\n")
}

// emit makes sure t and all its sub-terms are defined in the solver.
func (s *Solver) emit(t *Term) {
	if t.Op == OpConst || s.emitted[t.ID] || s.oneshot() {
		return
	}
	// iterative post-order
	type fr struct {
		t *Term
		i int
	}
	st := []fr{{t, 0}}
	for len(st) > 0 {
		f := &st[len(st)-1]
		if f.t.Op == OpConst || s.emitted[f.t.ID] {
			st = st[:len(st)-1]
			continue
		}
		if f.i < len(f.t.Args) {
			a := f.t.Args[f.i]
			f.i++
			if a.Op != OpConst && !s.emitted[a.ID] {
				st = append(st, fr{a, 0})
			}
			continue
		}
		x := f.t
		s.emitted[x.ID] = true
		if x.Op == OpVar {
			s.send(fmt.Sprintf("(declare-const |%s| %s)", x.Name, x.Sort.SMT()))
		} else {
			if x.Op == OpUF {
				sig := x.Name
				if !s.ufs[sig] {
					s.ufs[sig] = true
					var as []string
					for _, a := range x.Args {
						as = append(as, a.Sort.SMT())
					}
					s.send(fmt.Sprintf("(declare-fun %s (%s) %s)", x.Name, strings.Join(as, " "), x.Sort.SMT()))
				}
			}
			s.send(fmt.Sprintf("(define-fun t%d () %s %s)", x.ID, x.Sort.SMT(), Def(x)))
		}
		st = st[:len(st)-1]
	}
}

// Depth is the number of assertion levels.
func (s *Solver) Depth() int { return len(s.levels) }

// Level returns the term asserted at level i.
func (s *Solver) Level(i int) *Term { return s.levels[i] }

// Push asserts t at a new level.
func (s *Solver) Push(t *Term) {
	if s.oneshot() {
		s.levels = append(s.levels, t)
		return
	}
	s.emit(t)
	s.send("(push 1)")
	s.send("(assert " + Ref(t) + ")")
	s.levels = append(s.levels, t)
}

// PopTo pops levels until depth == d.
func (s *Solver) PopTo(d int) {
	if n := len(s.levels) - d; n > 0 {
		s.send(fmt.Sprintf("(pop %d)", n))
		s.levels = s.levels[:d]
	}
}

func (s *Solver) readLine() (string, error) {
	l, err := s.out.ReadString('\n')
	return strings.TrimSpace(l), err
}

// Check checks satisfiability of the stack plus the extra assumptions.
func (s *Solver) Check(extra ...*Term) Result {
	t0 := time.Now()
	defer func() {
		d := time.Since(t0)
		s.Time += d
		if dir := os.Getenv("GOSYMX_SLOWDIR"); dir != "" && d > 500*time.Millisecond {
			ts := append(append([]*Term{}, s.levels...), extra...)
			os.WriteFile(fmt.Sprintf("%s/slow-%d-%d-%dms.smt2", dir, os.Getpid(), s.Queries, d.Milliseconds()), []byte(Script(ts, "")), 0o644)
		}
	}()
	s.Queries++
	if s.oneshot() {
		return s.checkOneShot(extra)
	}
	for _, e := range extra {
		s.emit(e)
	}
	if len(extra) > 0 {
		s.send("(push 1)")
		for _, e := range extra {
			s.send("(assert " + Ref(e) + ")")
		}
	}
	s.send("(check-sat)")
	res := Unknown
	for {
		l, err := s.readLine()
		if err != nil {
			s.LastErr = "solver died: " + err.Error()
			res = Unknown
			break
		}
		if l == "sat" {
			res = Sat
			break
		}
		if l == "unsat" {
			res = Unsat
			break
		}
		if l == "unknown" || l == "timeout" {
			res = Unknown
			break
		}
		if strings.HasPrefix(l, "(error") {
			s.LastErr = l
			// keep reading until verdict; the verdict is not trusted
			for {
				l2, err := s.readLine()
				if err != nil || l2 == "sat" || l2 == "unsat" || l2 == "unknown" {
					break
				}
			}
			res = Unknown
			break
		}
	}
	s.lastHadExtra = len(extra) > 0
	if res != Sat && len(extra) > 0 {
		s.send("(pop 1)")
		s.lastHadExtra = false
	}
	switch res {
	case Sat:
		s.NSat++
	case Unsat:
		s.NUnsat++
	default:
		s.NUnknown++
	}
	return res
}

var _ = strconv.Itoa

// lastHadExtra: after a Sat Check with extras the extra scope stays open so
// that Model() can be read; Done() closes it.
func (s *Solver) Done() {
	if s.lastHadExtra && !s.oneshot() {
		s.send("(pop 1)")
		s.lastHadExtra = false
	}
}

// Model reads values of the given variables (after a Sat Check, before Done).
func (s *Solver) Model(vars []*Term) (Model, error) {
	if s.oneshot() {
		return s.lastModel, nil
	}
	m := Model{}
	var names []*Term
	for _, v := range vars {
		if s.emitted[v.ID] {
			names = append(names, v)
		}
	}
	if len(names) == 0 {
		return m, nil
	}
	var sb strings.Builder
	sb.WriteString("(get-value (")
	for _, v := range names {
		sb.WriteString(Ref(v))
		sb.WriteByte(' ')
	}
	sb.WriteString("))")
	s.send(sb.String())
	// read balanced s-expression
	text, err := s.readSexp()
	if err != nil {
		return nil, err
	}
	if strings.Contains(text, "(error") {
		return nil, fmt.Errorf("model error: %s", text)
	}
	toks := tokenize(text)
	// parse ((name val) (name val) ...)
	pos := 0
	var parse func() interface{}
	parse = func() interface{} {
		if pos >= len(toks) {
			return nil
		}
		t := toks[pos]
		pos++
		if t == "(" {
			var l []interface{}
			for pos < len(toks) && toks[pos] != ")" {
				l = append(l, parse())
			}
			pos++
			return l
		}
		return t
	}
	top, _ := parse().([]interface{})
	for i, e := range top {
		pair, ok := e.([]interface{})
		if !ok || len(pair) != 2 || i >= len(names) {
			continue
		}
		v, ok := parseValue(pair[1], names[i].Sort)
		if !ok {
			return nil, fmt.Errorf("cannot parse model value %v", pair[1])
		}
		m[names[i].Name] = v
	}
	return m, nil
}

func (s *Solver) readSexp() (string, error) {
	var sb strings.Builder
	depth := 0
	started := false
	for {
		l, err := s.out.ReadString('\n')
		if err != nil {
			return sb.String(), err
		}
		sb.WriteString(l)
		for _, ch := range l {
			if ch == '(' {
				depth++
				started = true
			} else if ch == ')' {
				depth--
			}
		}
		if started && depth <= 0 {
			return sb.String(), nil
		}
	}
}

func tokenize(s string) []string {
	var toks []string
	i := 0
	for i < len(s) {
		c := s[i]
		switch {
		case c == '(' || c == ')':
			toks = append(toks, string(c))
			i++
		case c == ' ' || c == '\n' || c == '\t' || c == '\r':
			i++
		case c == '|':
			j := strings.IndexByte(s[i+1:], '|')
			toks = append(toks, s[i:i+j+2])
			i += j + 2
		default:
			j := i
			for j < len(s) && !strings.ContainsRune("() \n\t\r", rune(s[j])) {
				j++
			}
			toks = append(toks, s[i:j])
			i = j
		}
	}
	return toks
}

func parseBV(tok string) (uint64, int, bool) {
	if strings.HasPrefix(tok, "#x") {
		v, err := strconv.ParseUint(tok[2:], 16, 64)
		return v, 4 * (len(tok) - 2), err == nil
	}
	if strings.HasPrefix(tok, "#b") {
		v, err := strconv.ParseUint(tok[2:], 2, 64)
		return v, len(tok) - 2, err == nil
	}
	return 0, 0, false
}

func parseValue(e interface{}, sort Sort) (uint64, bool) {
	switch x := e.(type) {
	case string:
		if x == "true" {
			return 1, true
		}
		if x == "false" {
			return 0, true
		}
		v, _, ok := parseBV(x)
		return v, ok
	case []interface{}:
		// (fp #b0 #b... #b...) | (_ +zero 11 53) | (_ NaN 11 53) | (_ +oo 11 53) | (_ bv10 32)
		if len(x) == 4 {
			if h, _ := x[0].(string); h == "fp" {
				s1, _ := x[1].(string)
				s2, _ := x[2].(string)
				s3, _ := x[3].(string)
				a, _, ok1 := parseBV(s1)
				b, wb, ok2 := parseBV(s2)
				c, wc, ok3 := parseBV(s3)
				_ = wb
				if ok1 && ok2 && ok3 {
					return a<<uint(wb+wc) | b<<uint(wc) | c, true
				}
			}
			if h, _ := x[0].(string); h == "_" {
				k, _ := x[1].(string)
				eb, _ := strconv.Atoi(fmt.Sprint(x[2]))
				sb, _ := strconv.Atoi(fmt.Sprint(x[3]))
				w := eb + sb
				expAll := ((uint64(1) << uint(eb)) - 1) << uint(sb-1)
				switch k {
				case "+zero":
					return 0, true
				case "-zero":
					return uint64(1) << uint(w-1), true
				case "+oo":
					return expAll, true
				case "-oo":
					return expAll | uint64(1)<<uint(w-1), true
				case "NaN":
					return expAll | uint64(1)<<uint(sb-2), true
				}
			}
		}
		if len(x) == 3 {
			if h, _ := x[0].(string); h == "_" {
				k, _ := x[1].(string)
				if strings.HasPrefix(k, "bv") {
					v, err := strconv.ParseUint(k[2:], 10, 64)
					return v, err == nil
				}
			}
		}
	}
	return 0, false
}

// Script renders a stand-alone SMT-LIB2 script deciding the conjunction of ts.
func Script(ts []*Term, logic string) string {
	var sb strings.Builder
	if logic != "" {
		fmt.Fprintf(&sb, "(set-logic %s)\n", logic)
	}
	emitted := map[int]bool{}
	ufs := map[string]bool{}
	var emit func(t *Term)
	emit = func(t *Term) {
		if t.Op == OpConst || emitted[t.ID] {
			return
		}
		type fr struct {
			t *Term
			i int
		}
		st := []fr{{t, 0}}
		for len(st) > 0 {
			f := &st[len(st)-1]
			if f.t.Op == OpConst || emitted[f.t.ID] {
				st = st[:len(st)-1]
				continue
			}
			if f.i < len(f.t.Args) {
				a := f.t.Args[f.i]
				f.i++
				if a.Op != OpConst && !emitted[a.ID] {
					st = append(st, fr{a, 0})
				}
				continue
			}
			x := f.t
			emitted[x.ID] = true
			if x.Op == OpVar {
				fmt.Fprintf(&sb, "(declare-const |%s| %s)\n", x.Name, x.Sort.SMT())
			} else {
				if x.Op == OpUF && !ufs[x.Name] {
					ufs[x.Name] = true
					var as []string
					for _, a := range x.Args {
						as = append(as, a.Sort.SMT())
					}
					fmt.Fprintf(&sb, "(declare-fun %s (%s) %s)\n", x.Name, strings.Join(as, " "), x.Sort.SMT())
				}
				fmt.Fprintf(&sb, "(define-fun t%d () %s %s)\n", x.ID, x.Sort.SMT(), Def(x))
			}
			st = st[:len(st)-1]
		}
	}
	for _, t := range ts {
		emit(t)
		fmt.Fprintf(&sb, "(assert %s)\n", Ref(t))
	}
	sb.WriteString("(check-sat)\n")
	return sb.String()
}

// Portfolio decides the conjunction of ts with several one-shot solver
// processes in parallel; the first definite answer wins. On Sat the model of
// vars is returned.
func Portfolio(ts []*Term, vars []*Term, timeoutS int) (Result, Model, string) {
	type ans struct {
		r    Result
		m    Model
		kind string
	}
	script := Script(ts, "")
	var gv strings.Builder
	gv.WriteString("(get-value (")
	n := 0
	seen := map[string]bool{}
	// only variables that occur in the script
	for _, v := range vars {
		if strings.Contains(script, "(declare-const |"+v.Name+"| ") && !seen[v.Name] {
			seen[v.Name] = true
			gv.WriteString(Ref(v))
			gv.WriteByte(' ')
			n++
		}
	}
	gv.WriteString("))\n")
	kinds := []struct {
		name string
		args []string
		pre  string
	}{
		{"cvc5", []string{"--lang", "smt2", "--produce-models", fmt.Sprintf("--tlimit=%d", timeoutS*1000)}, "(set-logic ALL)\n"},
		{"cvc5", []string{"--lang", "smt2", "--produce-models", "--solve-bv-as-int=sum", fmt.Sprintf("--tlimit=%d", timeoutS*1000)}, "(set-logic ALL)\n"},
		{"z3-new", []string{"-in", "-smt2", fmt.Sprintf("-T:%d", timeoutS)}, "(set-option :produce-models true)\n"},
		{"/usr/bin/z3", []string{"-in", "-smt2", fmt.Sprintf("-T:%d", timeoutS)}, "(set-option :produce-models true)\n"},
	}
	ch := make(chan ans, len(kinds))
	var cmds []*exec.Cmd
	for _, k := range kinds {
		cmd := exec.Command(k.name, k.args...)
		input := k.pre + script
		if n > 0 {
			input += gv.String()
		}
		cmd.Stdin = strings.NewReader(input)
		cmds = append(cmds, cmd)
		go func(name string, cmd *exec.Cmd) {
			out, _ := cmd.Output()
			text := string(out)
			if strings.Contains(text, "(error") && !strings.Contains(text, "model is not available") {
				ch <- ans{Unknown, nil, name}
				return
			}
			lines := strings.SplitN(strings.TrimSpace(text), "\n", 2)
			switch strings.TrimSpace(lines[0]) {
			case "unsat":
				ch <- ans{Unsat, nil, name}
			case "sat":
				m := Model{}
				if n > 0 && len(lines) > 1 {
					toks := tokenize(lines[1])
					pos := 0
					var parse func() interface{}
					parse = func() interface{} {
						if pos >= len(toks) {
							return nil
						}
						t := toks[pos]
						pos++
						if t == "(" {
							var l []interface{}
							for pos < len(toks) && toks[pos] != ")" {
								l = append(l, parse())
							}
							pos++
							return l
						}
						return t
					}
					top, _ := parse().([]interface{})
					for _, e := range top {
						pair, ok := e.([]interface{})
						if !ok || len(pair) != 2 {
							continue
						}
						nm, _ := pair[0].(string)
						nm = strings.Trim(nm, "|")
						var srt Sort
						for _, v := range vars {
							if v.Name == nm {
								srt = v.Sort
							}
						}
						if val, ok := parseValue(pair[1], srt); ok {
							m[nm] = val
						}
					}
				}
				ch <- ans{Sat, m, name}
			default:
				ch <- ans{Unknown, nil, name}
			}
		}(k.name, cmd)
	}
	res := ans{Unknown, nil, ""}
	for i := 0; i < len(kinds); i++ {
		a := <-ch
		if a.r != Unknown {
			res = a
			break
		}
	}
	for _, c := range cmds {
		if c.Process != nil {
			c.Process.Kill()
		}
	}
	return res.r, res.m, res.kind
}

// Levels returns the asserted terms of the stack.
func (s *Solver) Levels() []*Term { return s.levels }

func (s *Solver) checkOneShot(extra []*Term) Result {
	ts := append(append([]*Term{}, s.levels...), extra...)
	script := Script(ts, "")
	var vars []*Term
	if s.AllVars != nil {
		vars = s.AllVars()
	}
	var gv strings.Builder
	n := 0
	gv.WriteString("(get-value (")
	for _, v := range vars {
		if strings.Contains(script, "(declare-const |"+v.Name+"| ") {
			gv.WriteString(Ref(v))
			gv.WriteByte(' ')
			n++
		}
	}
	gv.WriteString("))\n")
	var cmd *exec.Cmd
	pre := ""
	switch s.Kind {
	case "cvc5-int-oneshot":
		cmd = exec.Command("cvc5", "--lang", "smt2", "--produce-models", "--solve-bv-as-int=sum", fmt.Sprintf("--tlimit=%d", s.TimeoutMs))
		pre = "(set-logic ALL)\n"
	case "cvc5-oneshot":
		cmd = exec.Command("cvc5", "--lang", "smt2", "--produce-models", fmt.Sprintf("--tlimit=%d", s.TimeoutMs))
		pre = "(set-logic ALL)\n"
	case "z3-new-oneshot":
		cmd = exec.Command("z3-new", "-in", "-smt2", fmt.Sprintf("-t:%d", s.TimeoutMs))
		pre = "(set-option :produce-models true)\n"
	default:
		cmd = exec.Command("/usr/bin/z3", "-in", "-smt2", fmt.Sprintf("-t:%d", s.TimeoutMs))
		pre = "(set-option :produce-models true)\n"
	}
	input := pre + script
	if n > 0 {
		input += gv.String()
	}
	cmd.Stdin = strings.NewReader(input)
	out, _ := cmd.Output()
	text := strings.TrimSpace(string(out))
	lines := strings.SplitN(text, "\n", 2)
	res := Unknown
	switch strings.TrimSpace(lines[0]) {
	case "sat":
		res = Sat
		s.NSat++
		m := Model{}
		if n > 0 && len(lines) > 1 && !strings.Contains(lines[1], "(error") {
			toks := tokenize(lines[1])
			pos := 0
			var parse func() interface{}
			parse = func() interface{} {
				if pos >= len(toks) {
					return nil
				}
				t := toks[pos]
				pos++
				if t == "(" {
					var l []interface{}
					for pos < len(toks) && toks[pos] != ")" {
						l = append(l, parse())
					}
					pos++
					return l
				}
				return t
			}
			top, _ := parse().([]interface{})
			byName := map[string]*Term{}
			for _, v := range vars {
				byName[v.Name] = v
			}
			for _, e := range top {
				pair, ok := e.([]interface{})
				if !ok || len(pair) != 2 {
					continue
				}
				nm, _ := pair[0].(string)
				nm = strings.Trim(nm, "|")
				if v, ok := byName[nm]; ok {
					if val, ok := parseValue(pair[1], v.Sort); ok {
						m[nm] = val
					}
				}
			}
		}
		s.lastModel = m
	case "unsat":
		if strings.Contains(text, "(error") && !strings.Contains(text, "model") && !strings.Contains(text, "get-value") && !strings.Contains(text, "Cannot get value") {
			s.LastErr = text
			s.NUnknown++
			return Unknown
		}
		res = Unsat
		s.NUnsat++
	default:
		if strings.Contains(text, "(error") {
			s.LastErr = text
		}
		s.NUnknown++
	}
	return res
}

// OneShot runs a raw SMT-LIB script through one solver process and returns the
// first answer line ("sat"/"unsat"/...). Any "(error" in the output is an error.
func OneShot(kind, script string, timeoutMs int) (string, error) {
	var cmd *exec.Cmd
	pre := ""
	switch kind {
	case "z3":
		cmd = exec.Command("/usr/bin/z3", "-in", "-smt2", fmt.Sprintf("-t:%d", timeoutMs))
	case "z3-new":
		cmd = exec.Command("z3-new", "-in", "-smt2", fmt.Sprintf("-t:%d", timeoutMs))
	case "cvc5":
		cmd = exec.Command("cvc5", "--lang", "smt2", fmt.Sprintf("--tlimit=%d", timeoutMs))
		pre = "(set-logic ALL)\n"
	case "cvc5-int":
		cmd = exec.Command("cvc5", "--lang", "smt2", "--solve-bv-as-int=sum", fmt.Sprintf("--tlimit=%d", timeoutMs))
		pre = "(set-logic ALL)\n"
	default:
		return "", fmt.Errorf("unknown solver %q", kind)
	}
	cmd.Stdin = strings.NewReader(pre + script + "\n")
	out, err := cmd.Output()
	text := strings.TrimSpace(string(out))
	if strings.Contains(text, "(error") {
		return "", fmt.Errorf("solver error: %s", text)
	}
	if text == "" {
		return "", fmt.Errorf("no answer (%v)", err)
	}
	return strings.TrimSpace(strings.SplitN(text, "\n", 2)[0]), nil
}
