#!/usr/bin/env python3
"""usage: seedmeta.py <seed-id> <harness> <label> <history...>
Writes seeded/<id>/meta.json; summary/needs/files are taken from the sub-agent's notes.md and patch.diff."""
import json, re, sys, os
sid, harness, label = sys.argv[1:4]
history = " ".join(sys.argv[4:])
prop = sid.split("-")[0]
d = f"/verif/seeded/{sid}"
notes = open(f"{d}/notes.md").read()
bul = [re.sub(r"\s+", " ", b.strip()) for b in re.split(r"\n\s*(?:[-*]|\d+\.)\s+", "\n" + notes) if b.strip() and not b.strip().startswith("#")]
def pick(keys):
    for b in bul:
        if any(k in b.lower()[:60] for k in keys):
            return b
    return ""
summary = pick(["change", "changed"]) or (bul[0] if bul else "")
needs = pick(["manifest", "needed", "trigger", "what it needs", "to manifest", "when it shows", "needs"])
files = sorted(set(re.findall(r"^\+\+\+ b/(\S+)", open(f"{d}/patch.diff").read(), re.M)))
m = dict(property=prop, summary=summary[:900], needs=needs[:600], files=files,
    confirmed="scratch worktree of /repo HEAD: demo passes on the clean tree; with patch.diff applied go build ./... succeeds, go test -vet=off -count=1 ./... passes, demo fails (tools/seedcheck.sh)",
    source="written by an independent sub-agent given only the property text (free choice of where to change)",
    checked_with=f"tools/seedrun.sh {sid} {prop} quick (git -C /repo apply; ./check {prop} --tier quick; git -C /repo checkout -- .)",
    caught_by=dict(property=prop, harness=harness, label=label), history=history)
json.dump(m, open(f"{d}/meta.json", "w"), indent=1)
print(sid, "|", summary[:120])
