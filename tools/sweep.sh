#!/bin/bash
# usage: tools/sweep.sh <tier> [ids...]   -- runs checks one after another, one summary line each (used with `vp run`)
tier=${1:-thorough}; shift
ids=${@:-C01 C02 C03 C04 C05 C06 C07 C08 C09 C10 C11 C12 C13 C14 C15 C16 C17 C18 C19 C20}
cd "$(dirname "$0")/.."
export VERIF_DIR=$PWD
repoflag=""
[ -n "${VP_RUN_REPO:-}" ] && repoflag="--repo $VP_RUN_REPO"
mkdir -p sweep_logs
for id in $ids; do
  s=$(date +%s)
  ./check $id --tier $tier $repoflag > sweep_logs/$id.$tier.log 2>&1
  rc=$?
  e=$(date +%s)
  echo "$id tier=$tier rc=$rc wall=$((e-s))s kf=$(grep -c '^KNOWN-FINDING' sweep_logs/$id.$tier.log) :: $(grep '^OK\|^VIOLATION\|^INCONCLUSIVE\|^ENGINE\|^ERROR' sweep_logs/$id.$tier.log | head -4 | cut -c1-220 | tr '\n' ' ')"
done
