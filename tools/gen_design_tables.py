#!/usr/bin/env python3
"""Regenerates the tables of DESIGN.md section 12 (between the GENERATED markers) from
the machinery itself: `gosymx props` (harnesses, bounds), seeded/*/meta.json, known_findings.txt."""
import json, subprocess, os, re, glob
V = os.path.dirname(os.path.dirname(os.path.abspath(__file__)))
props = json.loads(subprocess.check_output([os.path.join(V, "bin/gosymx"), "props"]))
out = []
out.append("### 12.1 Harnesses and bounds per property (from `gosymx props`)\n")
for pid in sorted(props):
    p = props[pid]
    out.append(f"**{pid}**\n")
    out.append("| harness (package) | solver | quick bounds | thorough bounds | decides |")
    out.append("|---|---|---|---|---|")
    for h in p["Harnesses"]:
        def b(m):
            return ", ".join(f"{k}={v}" for k, v in sorted((m or {}).items())) or "harness defaults"
        th = b(h.get("Thorough") or h.get("Quick"))
        q = "— (thorough only)" if h.get("ThoroughOnly") else b(h.get("Quick"))
        out.append(f"| `{h['Fn']}` ({h['Pkg']}) | {h['Solver'] or 'cvc5-int-oneshot'} | {q} | {th} | {h['What']} |")
    out.append("")
    if p.get("Assumptions"):
        out.append("Assumptions: " + "; ".join(p["Assumptions"]) + ".\n")
    if p.get("Stubs"):
        out.append("Stubs: " + "; ".join(p["Stubs"]) + ".\n")
    if p.get("Outside"):
        out.append("Outside the claim: " + "; ".join(p["Outside"]) + ".\n")
out.append("### 12.2 Seeded changes and the checks that catch them (from `seeded/*/meta.json`)\n")
out.append("| seed | change (by an independent sub-agent) | caught by (harness: label) | history |")
out.append("|---|---|---|---|")
for d in sorted(glob.glob(os.path.join(V, "seeded", "*", "meta.json"))):
    m = json.load(open(d))
    sid = os.path.basename(os.path.dirname(d))
    cb = m.get("caught_by") or {}
    s = m.get("summary", "").replace("|", "\\|").replace("\n", " ")
    if len(s) > 260:
        s = s[:257] + "..."
    caught = f"{cb.get('property','')} `{cb.get('harness','')}`: `{cb.get('label','')}`" if cb else "**not caught**"
    out.append(f"| {sid} | {s} | {caught} | {m.get('history','').replace('|','/')} |")
out.append("")
out.append("### 12.3 Findings (from `known_findings.txt`)\n")
out.append("| status | property | commit / label | what failed |")
out.append("|---|---|---|---|")
for l in open(os.path.join(V, "known_findings.txt")):
    l = l.strip()
    m = re.match(r"fixed: property=(\S+) (\S+) (.*)", l)
    if m:
        out.append(f"| repaired (`fix:`) | {m.group(1)} | {m.group(2)} | {m.group(3).replace('|','/')} |")
    m = re.match(r"finding: property=(\S+) label=(\S+) (.*)", l)
    if m:
        out.append(f"| recorded | {m.group(1)} | `{m.group(2)}` | {m.group(3).replace('|','/')} |")
out.append("")
text = "\n".join(out)
p = os.path.join(V, "DESIGN.md")
s = open(p).read()
b, e = "<!-- BEGIN GENERATED TABLES -->", "<!-- END GENERATED TABLES -->"
i, j = s.index(b), s.index(e)
s = s[:i + len(b)] + "\n" + text + "\n" + s[j:]
open(p, "w").write(s)
print("DESIGN.md tables regenerated:", len(props), "properties")
