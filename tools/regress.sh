#!/bin/bash
# usage: tools/regress.sh [seed-id...]   (meant for `vp run --with-repo -- tools/regress.sh`)
# Applies every seeded change in turn to a scratch copy of the repository ($VP_RUN_REPO), runs the
# property's quick check against it and reverts. One line per seed: CAUGHT (exit 1 + VIOLATION), or what else happened.
cd "$(dirname "$0")/.."
export VERIF_DIR=$PWD
repo=${VP_RUN_REPO:?needs a scratch copy of the repository in VP_RUN_REPO}
ids=${@:-$(ls seeded)}
mkdir -p sweep_logs
for s in $ids; do
  prop=${s%-*}
  if ! git -C $repo apply $PWD/seeded/$s/patch.diff 2>/dev/null; then echo "$s APPLY-FAILED"; continue; fi
  ./check $prop --tier quick --repo $repo > sweep_logs/regress_$s.log 2>&1; rc=$?
  git -C $repo checkout -- . ; git -C $repo clean -fdq
  if [ $rc -eq 1 ] && grep -q "^VIOLATION property=$prop" sweep_logs/regress_$s.log; then
    echo "$s CAUGHT $(grep -A1 '^VIOLATION' sweep_logs/regress_$s.log | grep -o 'label=[^ ]*' | head -1)"
  else
    echo "$s MISSED rc=$rc $(grep '^OK\|^INCONCLUSIVE\|^ENGINE\|^ERROR' sweep_logs/regress_$s.log | head -2 | cut -c1-160 | tr '\n' ' ')"
  fi
done
echo "regression done"
