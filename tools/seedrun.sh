#!/bin/bash
# usage: seedrun.sh <seed-id> <prop> [tier]  -- applies the seeded patch to /repo, runs the check, reverts.
set -u
id=$1; prop=$2; tier=${3:-quick}
cd /repo && git apply /verif/seeded/$id/patch.diff || { echo "$id apply failed"; exit 2; }
cd /verif && out=$(./check $prop --tier $tier 2>&1); rc=$?
git -C /repo checkout -- . 
echo "=== $id vs $prop ($tier): exit=$rc"
echo "$out" | grep -v "^KNOWN-FINDING" | cut -c1-260 | tail -6
# restore the evidence file of the unchanged tree
git -C /verif checkout -- evidence/$prop.json 2>/dev/null
