#!/bin/bash
# usage: seedcheck.sh <outdir> <prop> <n>   -- confirms a seeded mutation in a scratch worktree
# (suite passes with it, demo fails with it and passes without it); prints one line.
set -u
out=$1; prop=$2; n=$3
export GOFLAGS=-mod=mod GOPROXY=off GOSUMDB=off GOTOOLCHAIN=local
d=$out/$n
wt=/tmp/seedverify_${prop}_$n
flock /tmp/seedwt.lock git -C /repo worktree add -q --detach $wt HEAD 2>/dev/null || { echo "$prop/$n worktree-failed"; exit 1; }
cd $wt
pkgdir=$(grep -m1 -o 'internal/[a-z]*\|^// .*profile/\|profile' $d/demo_test.go | head -1)
# find package dir from the package clause + comment
pkg=$(grep -m1 '^package ' $d/demo_test.go | awk '{print $2}')
case $pkg in
  profile|profile_test) pdir=profile;;
  *) pdir=internal/${pkg%_test};;
esac
res=""
cp $d/demo_test.go $pdir/zz_seeded_demo_test.go
if go test -vet=off -count=1 -run 'TestSeeded' ./$pdir >/tmp/seed_clean_$prop$n.log 2>&1; then res="$res clean:PASS"; else res="$res clean:FAIL"; fi
rm -f $pdir/zz_seeded_demo_test.go
if git apply $d/patch.diff 2>/dev/null; then res="$res apply:ok"; else res="$res apply:FAILED"; fi
if go build ./... >/dev/null 2>&1; then res="$res build:ok"; else res="$res build:FAIL"; fi
if go test -vet=off -count=1 ./... >/tmp/seed_suite_$prop$n.log 2>&1; then res="$res suite:PASS"; else res="$res suite:FAIL"; fi
cp $d/demo_test.go $pdir/zz_seeded_demo_test.go
if go test -vet=off -count=1 -run 'TestSeeded' ./$pdir >/tmp/seed_mut_$prop$n.log 2>&1; then res="$res mutant-demo:PASS(bad)"; else res="$res mutant-demo:FAIL(good)"; fi
cd /
flock /tmp/seedwt.lock git -C /repo worktree remove --force $wt
echo "$prop/$n pkg=$pdir $res"
