#!/usr/bin/env python3
"""Regenerates MANIFEST.json from tools/manifest_src.json (claimed checks + not_applicable)."""
import json, sys
src = json.load(open('/verif/tools/manifest_src.json'))
checks = []
for c in src['checks']:
    pid = c['id']
    checks.append({
        "property_id": pid,
        "quick_cmd": f"./check {pid} --tier quick",
        "thorough_cmd": f"./check {pid} --tier thorough",
        "evidence_file": f"/verif/evidence/{pid}.json",
        "replay_cmd_template": f"./check {pid} --replay {{path}}",
        "engine": "gosymx",
        "level_claimed": {"category": "model_checking", "text": c['level_text'], "design_ref": c.get('design_ref', 'DESIGN.md section 3')},
        "level_note": c['level_note'],
        "technique": c.get('technique', "bounded symbolic execution of the real Go code (go/ssa) with an SMT solver (cvc5/z3) deciding branches, safety obligations and assertions; counterexamples replayed natively"),
    })
m = {
    "version": 1,
    "setup_cmd": "cd /verif/engine && GOFLAGS=-mod=mod GOPROXY=off GOSUMDB=off GOTOOLCHAIN=local go build -o ../bin/gosymx ./cmd/gosymx && cd /verif && bin/gosymx selftest",
    "hooks": {
        "guard": "verif",
        "enable": "harness files carry //go:build verif and are injected by overlay (go/packages Overlay for the symbolic run, go test -overlay -tags verif for native replay); /repo itself contains no hook code",
        "baseline_off_cmd": "cd /repo && go build ./... && go test -vet=off -count=1 -timeout 25m ./...",
        "source_commits": [],
        "add_only": True,
    },
    "engines": [{"name": "gosymx", "path": "/verif/engine", "serves_properties": [c['id'] for c in src['checks']],
                 "kind_free_text": "purpose-built symbolic interpreter over go/ssa (x/tools v0.29.0) with SMT back ends cvc5 1.0 (bit-vectors solved as integers), z3 4.8.12 and z3 5.1.0"}],
    "checks": checks,
    "not_applicable": src['not_applicable'],
    "notes": src.get('notes', ''),
}
json.dump(m, open('/verif/MANIFEST.json', 'w'), indent=1)
print("wrote MANIFEST.json with", len(checks), "checks and", len(src['not_applicable']), "not_applicable")
