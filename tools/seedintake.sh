#!/bin/bash
# usage: seedintake.sh <seed-id>...   e.g. C01-4 C02-4
# copies a sub-agent's deliverables from /tmp/seedout_<id> to seeded/<id>, removes its worktree,
# confirms the seed in a scratch worktree (seedcheck.sh) and runs the quick check against it (seedrun.sh).
cd /verif
for n in "$@"; do
  k=${n%-*}
  mkdir -p seeded/$n
  cp /tmp/seedout_$n/patch.diff /tmp/seedout_$n/demo_test.go /tmp/seedout_$n/notes.md seeded/$n/ 2>/dev/null || { echo "$n: deliverables missing"; continue; }
  git -C /repo worktree remove --force /tmp/seedwt_$n 2>/dev/null
  tools/seedcheck.sh /verif/seeded $k $n
  tools/seedrun.sh $n $k quick 2>&1 | cut -c1-260
done
