//go:build verif

package profile

func init() {
	vRegister("VerifC07SampleTypes", VerifC07SampleTypes)
}

var vTypeOrders = [][]string{
	{"a", "b", "c"},
	{"c", "a", "b"},
	{"b", "a"},
	{"a", "c"},
	{"c", "b", "a"},
	{"b"},
	{"b", "c", "a"},
	{"c", "x", "a"},
}

// VerifC07SampleTypes: inputs that list their sample types in a different
// order or only partly overlap are aligned, never mixed up: after
// CompatibilizeSampleTypes every profile has the common types in the first
// profile's order and every sample's value for a type is the value it had for
// that type; merging source and negated base then subtracts column by column.
func VerifC07SampleTypes() {
	no := vBound("c07.orders", len(vTypeOrders))
	orders := [][]string{vTypeOrders[vChoice("order0", no)], vTypeOrders[vChoice("order1", no)]}
	var ps []*Profile
	var orig []map[string]int64
	for k, ord := range orders {
		m := &Mapping{ID: 1, Start: 0x1000, Limit: 0x2000, File: "bin"}
		f := &Function{ID: 1, Name: "f", SystemName: "f", Filename: "f.go"}
		l := &Location{ID: 1, Mapping: m, Address: 0x1100, Line: []Line{{Function: f, Line: 1}}}
		p := &Profile{PeriodType: &ValueType{Type: "cpu", Unit: "ns"}, Period: 1,
			Mapping: []*Mapping{m}, Function: []*Function{f}, Location: []*Location{l}, DefaultSampleType: ord[len(ord)-1]}
		s := &Sample{Location: []*Location{l}}
		vals := map[string]int64{}
		for _, t := range ord {
			p.SampleType = append(p.SampleType, &ValueType{Type: t, Unit: "count"})
			v := vInt64("v" + string(rune('0'+k)) + t)
			vAssume(v >= -(1 << 40))
			vAssume(v <= 1<<40)
			s.Value = append(s.Value, v)
			vals[t] = v
		}
		p.Sample = []*Sample{s}
		ps = append(ps, p)
		orig = append(orig, vals)
	}
	var common []string
	for _, t := range orders[0] {
		for _, u := range orders[1] {
			if t == u {
				common = append(common, t)
			}
		}
	}
	err := CompatibilizeSampleTypes(ps)
	vReach("C07.types:returned")
	if len(common) == 0 {
		vAssert(err != nil, "C07.types.disjoint: profiles without a common sample type were accepted")
		return
	}
	if err != nil {
		vAssert(false, "C07.types.error: profiles with common sample types were rejected")
		return
	}
	for k, p := range ps {
		if len(p.SampleType) != len(common) || len(p.Sample) != 1 || len(p.Sample[0].Value) != len(common) {
			vAssert(false, "C07.types.columns: the profiles do not end up with exactly the common sample types")
			return
		}
		for i, t := range common {
			if p.SampleType[i].Type != t {
				vAssert(false, "C07.types.order: sample types are not in the first profile's order")
				return
			}
			vAssert(p.Sample[0].Value[i] == orig[k][t], "C07.types.value: a sample's value for a type is not the value it had for that type before alignment")
		}
	}
	// source minus base, column by column
	ps[1].Scale(-1)
	d, err := Merge(ps)
	if err != nil {
		vAssert(false, "C07.types.merge: aligned profiles do not merge")
		return
	}
	allZero := true
	for _, t := range common {
		allZero = vAnd(allZero, orig[0][t] == orig[1][t])
	}
	if allZero {
		vAssert(len(d.Sample) == 0, "C07.types.cancel: equal source and base do not cancel")
		return
	}
	if len(d.Sample) != 1 {
		vAssert(false, "C07.types.diff: the difference of one stack is not one sample")
		return
	}
	for i, t := range common {
		vAssert(d.Sample[0].Value[i] == orig[0][t]-orig[1][t], "C07.types.diff: source minus base is not computed column by column")
	}
	vObserve(len(common))
}
