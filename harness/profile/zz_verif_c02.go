//go:build verif

package profile

import (
	"bytes"
	"strconv"
)

func init() {
	vRegister("VerifC02ParseBytes", VerifC02ParseBytes)
	vRegister("VerifC02ParseStructured", VerifC02ParseStructured)
	vRegister("VerifC02HugeLength", VerifC02HugeLength)
	vRegister("VerifC02LegacyCPU", VerifC02LegacyCPU)
}

// vC02Downstream exercises what the statement promises for every accepted profile.
func vC02Downstream(p *Profile) {
	// validity contract
	for _, s := range p.Sample {
		vAssert(len(s.Value) == len(p.SampleType), "C02.contract.values: accepted profile has a sample with a wrong number of values")
		for _, l := range s.Location {
			vAssert(l != nil && l.ID != 0, "C02.contract.location: accepted profile has a sample with a missing location")
		}
	}
	for _, l := range p.Location {
		for _, ln := range l.Line {
			vAssert(ln.Function != nil && ln.Function.ID != 0, "C02.contract.function: accepted profile has a line without function")
		}
	}
	// written, copied, compacted without a crash
	var buf bytes.Buffer
	vAssert(p.WriteUncompressed(&buf) == nil, "C02.downstream.write: writing an accepted profile failed")
	q, err := ParseUncompressed(buf.Bytes())
	if len(buf.Bytes()) > 0 {
		vAssert(err == nil, "C02.downstream.reparse: an accepted profile does not survive write-then-parse")
		if err == nil {
			vAssert(q.CheckValid() == nil, "C02.downstream.revalid: re-parsed profile is invalid")
		}
	}
	c := p.Compact()
	vAssert(c.CheckValid() == nil, "C02.downstream.compact: compacted profile is invalid")
}

// VerifC02ParseBytes: an arbitrary buffer of n symbolic bytes.
func VerifC02ParseBytes() {
	n := vBound("c02.n", 5)
	data := make([]byte, n)
	for i := range data {
		data[i] = vByte("b" + strconv.Itoa(i))
	}
	p, err := ParseUncompressed(data)
	vReach("C02.bytes:parsed")
	if err != nil {
		vObserve(false)
		return
	}
	if err := p.CheckValid(); err != nil {
		vObserve(false)
		return
	}
	vObserve(true, len(p.Sample), len(p.Location), len(p.Function), len(p.Mapping), len(p.SampleType))
	vReach("C02.bytes:accepted")
	vC02Downstream(p)
}

// VerifC02ParseStructured: a well-formed prefix (one sample type, string
// table) followed by a top-level field whose number, wire type, length and
// payload are symbolic: nested Sample/Location/Function/Mapping messages with
// arbitrary content.
func VerifC02ParseStructured() {
	var b buffer
	// string table: "", "a"
	encodeString(&b, 6, "")
	encodeString(&b, 6, "a")
	// sample type {type: 1, unit: 1}
	encodeMessage(&b, 1, &ValueType{typeX: 1, unitX: 1})
	data := append([]byte{}, b.data...)
	// symbolic field: tag byte (field 1..15, any wire type), then k payload bytes
	k := vBound("c02.payload", 4)
	tag := vByte("tag")
	vAssume(tag&0x80 == 0)
	data = append(data, tag)
	for i := 0; i < k; i++ {
		data = append(data, vByte("p"+strconv.Itoa(i)))
	}
	p, err := ParseUncompressed(data)
	vReach("C02.struct:parsed")
	if err != nil {
		vObserve(false)
		return
	}
	if err := p.CheckValid(); err != nil {
		vObserve(false)
		return
	}
	vObserve(true, len(p.Sample), len(p.Location), len(p.Function), len(p.Mapping))
	vReach("C02.struct:accepted")
	vC02Downstream(p)
}

// VerifC02HugeLength: a length-delimited field whose length prefix is any
// varint of up to ten bytes (including values beyond the int range).
func VerifC02HugeLength() {
	fields := []byte{0x0a, 0x12, 0x32, 0x7a, 0x3a} // fields 1, 2, 6, 15 and an unknown one, wire type 2
	data := []byte{fields[vChoice("field", len(fields))]}
	for i := 0; i < 10; i++ {
		b := vByte("len" + strconv.Itoa(i))
		if i < 9 {
			vAssume(b&0x80 != 0) // a ten-byte varint: every 64-bit length whose encoding uses all ten bytes
		}
		data = append(data, b)
	}
	for i := 0; i < vBound("c02.tail", 2); i++ {
		data = append(data, vByte("tail"+strconv.Itoa(i)))
	}
	p, err := ParseUncompressed(data)
	vReach("C02.hugelen:parsed")
	if err != nil {
		vObserve(false)
		return
	}
	if p.CheckValid() != nil {
		vObserve(false)
		return
	}
	vObserve(true)
	vC02Downstream(p)
}

// VerifC02LegacyCPU: bytes that resemble a binary CPU profile - a valid
// header of either word size and endianness followed by k arbitrary words
// (sample counts, depths, addresses, trailer: anything) - give an error or a
// valid, writable profile; never a panic.
func VerifC02LegacyCPU() {
	size := []int{8, 4}[vChoice("wordsize", 2)]
	big := vChoice("bigendian", 2) == 1
	var data []byte
	for _, w := range []uint64{0, 3, 0, 10000, 0} {
		data = vPutWord(data, w, size, big)
	}
	k := 2 + vChoice("words", vBound("c02.cpuwords", 4))
	for i := 0; i < k; i++ {
		w := vUint64("w" + string(rune('0'+i)))
		if size == 4 {
			vAssume(w <= 0xffffffff)
		}
		data = vPutWord(data, w, size, big)
	}
	// (parseLegacy tries this parser first; the text parsers that follow it on
	// errUnrecognized need regexp matching of symbolic bytes and are outside)
	p, err := parseCPU(data)
	vReach("C02.cpu:returned")
	if err != nil {
		vObserve(0)
		return
	}
	p.addLegacyFrameInfo()
	vAssert(p.CheckValid() == nil, "C02.cpu.valid: a binary CPU profile was accepted but is not valid")
	var buf bytes.Buffer
	vAssert(p.WriteUncompressed(&buf) == nil, "C02.cpu.write: an accepted profile cannot be written")
	vObserve(len(p.Sample))
}

func init() { vRegister("VerifC02DanglingIDs", VerifC02DanglingIDs) }

// VerifC02DanglingIDs: a structurally complete encoding (mapping, function,
// two locations with lines, a sample) whose cross-references - mapping id,
// function ids, location ids, in any order of first use - are arbitrary small
// numbers: the parser either rejects it or returns a profile in which every
// reference resolves (checked here directly, not through CheckValid).
func VerifC02DanglingIDs() {
	var b buffer
	encodeString(&b, 6, "")
	encodeString(&b, 6, "a")
	encodeMessage(&b, 1, &ValueType{typeX: 1, unitX: 1})
	id := func(tag string) uint64 {
		v := vByte(tag)
		vAssume(v <= 3)
		return uint64(v)
	}
	encodeMessage(&b, 3, &Mapping{ID: 1, Start: 0x1000, Limit: 0x2000, fileX: 1})
	encodeMessage(&b, 5, &Function{ID: 1, nameX: 1, systemNameX: 1, filenameX: 1})
	encodeMessage(&b, 5, &Function{ID: 2, nameX: 1, systemNameX: 1, filenameX: 1})
	nl := 1 + vChoice("lines", 2)
	l1 := &Location{ID: 1, mappingIDX: id("map1"), Address: 0x1100}
	for i := 0; i < nl; i++ {
		l1.Line = append(l1.Line, Line{functionIDX: id("fn1" + strconv.Itoa(i)), Line: 1})
	}
	l2 := &Location{ID: 2, mappingIDX: id("map2"), Address: 0x1200, Line: []Line{{functionIDX: id("fn2"), Line: 2}}}
	encodeMessage(&b, 4, l1)
	encodeMessage(&b, 4, l2)
	encodeMessage(&b, 2, &Sample{locationIDX: []uint64{id("loc0"), id("loc1")}, Value: []int64{7}})
	p, err := ParseUncompressed(append([]byte{}, b.data...))
	vReach("C02.dangling:parsed")
	if err != nil {
		vObserve(false)
		return
	}
	if p.CheckValid() != nil {
		vObserve(false)
		return
	}
	vReach("C02.dangling:accepted")
	vC02Downstream(p)
	inTable := func(f *Function) bool {
		for _, g := range p.Function {
			if g == f {
				return true
			}
		}
		return false
	}
	for _, l := range p.Location {
		for _, ln := range l.Line {
			vAssert(ln.Function != nil && inTable(ln.Function), "C02.contract.function: accepted profile has a line whose function is missing from the function table")
		}
		if l.Mapping != nil {
			ok := false
			for _, m := range p.Mapping {
				if m == l.Mapping {
					ok = true
				}
			}
			vAssert(ok, "C02.contract.mapping: accepted profile has a location whose mapping is missing from the mapping table")
		}
	}
	for _, s := range p.Sample {
		for _, l := range s.Location {
			ok := false
			for _, m := range p.Location {
				if m == l {
					ok = true
				}
			}
			vAssert(ok, "C02.contract.location: accepted profile has a sample location missing from the location table")
		}
	}
	vObserve(true, len(p.Location))
}
