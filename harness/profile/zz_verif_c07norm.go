//go:build verif

package profile

import "strconv"

func init() { vRegister("VerifC07Normalize", VerifC07Normalize) }

// VerifC07Normalize: with -normalize the source is scaled so that its total
// equals the base total, column by column - also when the base is empty or
// its values cancel (total 0: nothing of the source remains) and when the
// base has a single sample. Values are a concrete table (the quotient of two
// totals is a floating-point division); the totals may differ by the
// rounding of each sample (at most one half per sample).
func VerifC07Normalize() {
	mk := func(vals [][]int64) *Profile {
		m := &Mapping{ID: 1, Start: 0x1000, Limit: 0x9000, File: "bin"}
		p := &Profile{SampleType: []*ValueType{{Type: "a", Unit: "count"}, {Type: "b", Unit: "count"}},
			PeriodType: &ValueType{Type: "cpu", Unit: "ns"}, Period: 1, Mapping: []*Mapping{m}}
		for i, v := range vals {
			f := &Function{ID: uint64(i + 1), Name: "f" + strconv.Itoa(i), SystemName: "f" + strconv.Itoa(i), Filename: "f.go"}
			l := &Location{ID: uint64(i + 1), Mapping: m, Address: uint64(0x1100 + i), Line: []Line{{Function: f, Line: 1}}}
			p.Function = append(p.Function, f)
			p.Location = append(p.Location, l)
			p.Sample = append(p.Sample, &Sample{Location: []*Location{l}, Value: v})
		}
		return p
	}
	src := [][]int64{
		{[]int64{3, 10, -4}[vChoice("s0a", 3)], []int64{1, 8}[vChoice("s0b", 2)]},
		{5, 7},
	}
	if vChoice("emptysrc", 4) == 3 {
		src = nil
	}
	var base [][]int64
	nb := vChoice("nbase", 3)
	for j := 0; j < nb; j++ {
		n := strconv.Itoa(j)
		base = append(base, []int64{[]int64{0, 4, 100, -6}[vChoice("b"+n+"a", 4)], []int64{0, 2, 50}[vChoice("b"+n+"b", 3)]})
	}
	p, pb := mk(src), mk(base)
	var srcTot, baseTot [2]int64
	for _, v := range src {
		srcTot[0] += v[0]
		srcTot[1] += v[1]
	}
	for _, v := range base {
		baseTot[0] += v[0]
		baseTot[1] += v[1]
	}
	vFreeze(pb, "base-profile")
	err := p.Normalize(pb)
	vUnfreeze()
	vReach("C07.normalize:returned")
	if err != nil {
		vAssert(false, "C07.normalize.err: Normalize failed for compatible profiles")
		return
	}
	ratioOne := false
	for i := 0; i < 2; i++ {
		if srcTot[i] != 0 && srcTot[i] == baseTot[i] {
			ratioOne = true
		}
	}
	var after [2]int64
	for _, s := range p.Sample {
		after[0] += s.Value[0]
		after[1] += s.Value[1]
	}
	vObserve(len(p.Sample), after[0], after[1])
	for i := 0; i < 2; i++ {
		if srcTot[i] == 0 {
			continue // nothing to scale in this column
		}
		d := after[i] - baseTot[i]
		if d < 0 {
			d = -d
		}
		ok := d <= int64(len(src))
		if !ok && ratioOne && len(p.Sample) < len(src) {
			// a column whose totals already agree has ratio 1: the recorded ScaleN defect (a sample is
			// kept or dropped by the scaled columns only) shows here too
			vAssert(false, "C07.scalen.dropped-unscaled-nonzero: a sample whose only non-zero values are in columns with ratio 1 was dropped")
			continue
		}
		vAssert(ok, "C07.normalize.total: after -normalize the source total of a column differs from the base total by more than the rounding of its samples")
	}
}
