//go:build verif

package profile

func init() {
	vRegister("VerifC03NearDuplicates", VerifC03NearDuplicates)
}

func vNDProfile() *Profile {
	m := &Mapping{ID: 1, Start: 0x1000, Limit: 0x3000, Offset: 0, File: "bin", BuildID: "id"}
	f0 := &Function{ID: 1, Name: "callee", SystemName: "_callee", Filename: "a.go", StartLine: 10}
	f1 := &Function{ID: 2, Name: "caller", SystemName: "", Filename: "b.go", StartLine: 20}
	l := &Location{ID: 1, Mapping: m, Address: 0x1100, Line: []Line{{Function: f0, Line: 11, Column: 3}, {Function: f1, Line: 21, Column: 4}}}
	return &Profile{
		SampleType: []*ValueType{{Type: "samples", Unit: "count"}}, PeriodType: &ValueType{Type: "cpu", Unit: "ns"}, Period: 1,
		Mapping: []*Mapping{m}, Function: []*Function{f0, f1}, Location: []*Location{l},
		Sample: []*Sample{{Location: []*Location{l}, Value: []int64{0}}},
	}
}

// VerifC03NearDuplicates: two one-sample profiles whose stacks are equal
// except for exactly one frame attribute are kept apart by Merge, each with
// its own value and its own attributes; equal stacks (also when the binary is
// mapped at another address) are combined.
func VerifC03NearDuplicates() {
	a, b := vNDProfile(), vNDProfile()
	va, vb := vInt64("va"), vInt64("vb")
	vAssume(va >= 1)
	vAssume(va < 1<<40)
	vAssume(vb >= 1)
	vAssume(vb < 1<<40)
	a.Sample[0].Value[0], b.Sample[0].Value[0] = va, vb
	bm, bl := b.Mapping[0], b.Location[0]
	bf0, bf1 := b.Function[0], b.Function[1]
	// a string that differs from the original: another constant, the empty
	// string, or the value of a sibling attribute
	alt := func(tag, orig string, sibling string) string {
		cands := []string{orig + "x", "", sibling}
		c := cands[vChoice(tag, 3)]
		if c == orig {
			c = orig + "y"
		}
		return c
	}
	d := vInt64("delta")
	vAssume(d >= 1)
	vAssume(d < 1000)
	distinct := true
	attr := vChoice("attr", vBound("c03.attrs", 17))
	switch attr {
	case 0: // exact duplicates
		distinct = false
	case 1: // the same binary mapped elsewhere: same stack
		sh := uint64(d) << 12
		bm.Start += sh
		bm.Limit += sh
		bl.Address += sh
		distinct = false
	case 2:
		bm.BuildID = alt("s", bm.BuildID, bm.File)
		a.Mapping[0].File, bm.File = "", ""
		if bm.BuildID == "" {
			bm.BuildID = "id2"
		}
	case 3:
		a.Mapping[0].BuildID, bm.BuildID = "", ""
		bm.File = alt("s", bm.File, "id")
	case 4:
		bl.Address += uint64(d)
	case 5:
		bl.IsFolded = true
	case 6:
		bf0.Name = alt("s", bf0.Name, bf0.SystemName)
	case 7:
		bf0.SystemName = alt("s", bf0.SystemName, bf0.Name)
	case 8:
		bf0.Filename = alt("s", bf0.Filename, bf0.Name)
	case 9:
		bf0.StartLine += d
	case 10:
		// the function whose system name is empty
		bf1.SystemName = alt("s", bf1.SystemName, bf1.Name)
	case 11:
		bf1.Name = alt("s", bf1.Name, bf1.Filename)
	case 12:
		bl.Line[0].Line += d
	case 13:
		bl.Line[0].Column += d
	case 14:
		bl.Line[1].Line += d
	case 15:
		bl.Line[1].Column += d
	case 16: // inline nesting
		bl.Line = bl.Line[:1]
	}
	if vChoice("order", 2) == 1 {
		a, b = b, a
		va, vb = vb, va
	}
	m, err := Merge([]*Profile{a, b})
	vReach("C03.nd:merged")
	if err != nil {
		vAssert(false, "C03.nd.error: merging two compatible profiles failed")
		return
	}
	vAssert(m.CheckValid() == nil, "C03.nd.valid: merged profile is not valid")
	if !distinct {
		ok := len(m.Sample) == 1
		if ok {
			ok = vAnd(m.Sample[0].Value[0] == va+vb, vStackSame(m.Sample[0], a.Sample[0]))
		}
		vAssert(ok, "C03.nd.combined: equal stacks were not combined into one sample with the summed value")
		return
	}
	if len(m.Sample) != 2 {
		vAssert(false, "C03.nd.collapsed: stacks that differ in one frame attribute were merged into one")
		return
	}
	vAssert(vAnd(m.Sample[0].Value[0] == va, m.Sample[1].Value[0] == vb), "C03.nd.values: a near-duplicate stack does not keep its own value")
	vAssert(vStackSame(m.Sample[0], a.Sample[0]), "C03.nd.frames: the first stack's frame attributes were altered")
	vAssert(vStackSame(m.Sample[1], b.Sample[0]), "C03.nd.frames: the second stack's frame attributes were altered")
	vObserve(len(m.Location), len(m.Function), len(m.Mapping))
}

func init() { vRegister("VerifC12FreshIDs", VerifC12FreshIDs) }

// VerifC12FreshIDs (property C12): the ids handed out for functions added by
// symbolization are non-zero, unused by the profile and distinct, for every
// function table - dense, sparse, out of order, huge ids.
func VerifC12FreshIDs() {
	n := 1 + vChoice("nfuncs", vBound("c12.funcs", 3))
	p := &Profile{}
	for i := 0; i < n; i++ {
		id := vUint64("id" + string(rune('0'+i)))
		vAssume(id != 0)
		for _, f := range p.Function {
			vAssume(f.ID != id)
		}
		p.Function = append(p.Function, &Function{ID: id, Name: "f" + string(rune('0'+i))})
	}
	next := UnusedFunctionIDs(p)
	var fresh []uint64
	for k := 0; k < 3; k++ {
		id := next()
		ok := id != 0
		for _, f := range p.Function {
			ok = vAnd(ok, f.ID != id)
		}
		for _, g := range fresh {
			ok = vAnd(ok, g != id)
		}
		vAssert(ok, "C12.freshid: a function id handed out for a new function is zero, already used by the profile, or was handed out before")
		fresh = append(fresh, id)
	}
	vObserve(fresh[0], fresh[1], fresh[2])
}

func init() { vRegister("VerifC03MergeMany", VerifC03MergeMany) }

// VerifC03MergeMany: three or four inputs of different sizes (location counts
// chosen from 1..3 in any order: state kept from one input must not leak into
// the next): every input stack is in the result with its own frames and value.
func VerifC03MergeMany() {
	k := 3 + vChoice("k", vBound("c03.many", 1))
	var ps []*Profile
	type exp struct {
		name string
		v    int64
	}
	var want []exp
	for i := 0; i < k; i++ {
		n := 1 + vChoice("n"+string(rune('0'+i)), 3)
		m := &Mapping{ID: 1, Start: 0x1000, Limit: 0x9000, File: "bin"}
		p := &Profile{SampleType: []*ValueType{{Type: "samples", Unit: "count"}}, PeriodType: &ValueType{Type: "cpu", Unit: "ns"}, Period: 1, Mapping: []*Mapping{m}}
		for j := 0; j < n; j++ {
			name := "p" + string(rune('0'+i)) + "f" + string(rune('0'+j))
			f := &Function{ID: uint64(j + 1), Name: name, SystemName: name, Filename: "f.go"}
			l := &Location{ID: uint64(j + 1), Mapping: m, Address: uint64(0x1000 + 0x100*i + 0x10*j), Line: []Line{{Function: f, Line: int64(j + 1)}}}
			v := vInt64("v" + string(rune('0'+i)) + string(rune('0'+j)))
			vAssume(v >= 1)
			vAssume(v < 1<<40)
			p.Function = append(p.Function, f)
			p.Location = append(p.Location, l)
			p.Sample = append(p.Sample, &Sample{Location: []*Location{l}, Value: []int64{v}})
			want = append(want, exp{name, v})
		}
		ps = append(ps, p)
	}
	m, err := Merge(ps)
	vReach("C03.many:merged")
	if err != nil {
		vAssert(false, "C03.many.error: merging compatible profiles failed")
		return
	}
	vAssert(m.CheckValid() == nil, "C03.many.valid: merged profile is not valid")
	if len(m.Sample) != len(want) {
		vAssert(false, "C03.many.count: the result does not hold one sample per distinct input stack")
		return
	}
	for i, w := range want {
		s := m.Sample[i]
		ok := len(s.Location) == 1 && len(s.Location[0].Line) == 1 && s.Location[0].Line[0].Function != nil
		if ok {
			ok = s.Location[0].Line[0].Function.Name == w.name
		}
		vAssert(ok, "C03.many.frames: a stack's frames are not those of the input stack (weights moved to other frames)")
		vAssert(s.Value[0] == w.v, "C03.many.value: a stack's value is not the input's")
	}
	vObserve(len(m.Location), len(m.Function))
}
