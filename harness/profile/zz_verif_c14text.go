//go:build verif

package profile

import (
	"math"
	"strconv"
)

func init() {
	vRegister("VerifC14HeapText", VerifC14HeapText)
}

var vTextAddrs = []string{"0x1100", "0x2001", "0xabc0"}
var vTextAddrVals = []uint64{0x1100, 0x2001, 0xabc0}

// VerifC14HeapText prints a gperftools/Go heap profile from a model (header
// variant, 1-2 records with symbolic decimal fields, comment and blank lines,
// optional memory map) and checks the parsed profile against the model:
// one sample per record in order, call-site addresses moved back by one,
// [alloc_objects alloc_space inuse_objects inuse_space] or [objects space]
// as the header prescribes, block-size label, mapping from the memory map.
func VerifC14HeapText() {
	headers := []string{"heapprofile", "heap_v2/1", "heap/2", "heap_v2/0", "growthz", "fragmentationz"}
	hv := vChoice("header", vBound("c14t.headers", len(headers)))
	nd := 1 + vChoice("ndigits", vBound("c14t.digits", 2))
	ho, _ := vDigitsP("ho", nd)
	hb, _ := vDigitsP("hb", nd)
	// the header's allocation totals: equal to in-use, zero, or different
	var hao, hab string
	switch vChoice("halloc", 3) {
	case 0:
		hao, hab = ho, hb
	case 1:
		hao, hab = "0", "0"
	case 2:
		hao, _ = vDigitsP("hao", nd)
		hab, _ = vDigitsP("hab", nd)
	}
	doc := "heap profile: " + ho + ": " + hb + " [ " + hao + ": " + hab + "] @ " + headers[hv] + "\n"
	wantAlloc := false
	if hv < 4 {
		a := vOr(vAnd(!vStrEq(hao, ho), !vStrEq(hao, "0")), vAnd(!vStrEq(hab, hb), !vStrEq(hab, "0")))
		if a {
			wantAlloc = true
		}
	}
	nrec := 1 + vChoice("records", vBound("c14t.records", 2))
	type rec struct {
		c, s, ac, as int64
		addrs       []uint64
	}
	var recs []rec
	for i := 0; i < nrec; i++ {
		t := "r" + strconv.Itoa(i)
		if pre := vChoice(t+"pre", vBound("c14t.pre", 3)); pre == 1 {
			doc += "# comment\n"
		} else if pre == 2 {
			doc += "\n"
		}
		cs, c := vDigitsP(t+"c", nd)
		ss, s := vDigitsP(t+"s", nd)
		acs, ac := vDigitsP(t+"ac", nd)
		ass, as := vDigitsP(t+"as", nd)
		// well-formed: a zero count comes with zero bytes
		vAssume(vImplies(c == 0, s == 0))
		vAssume(vImplies(ac == 0, as == 0))
		if hv >= 1 && hv <= 3 {
			// sampled (v2) formats: a sampled record never has objects without
			// bytes (its sampling probability 1-exp(-size/rate) would be 0)
			vAssume(vImplies(s == 0, c == 0))
			vAssume(vImplies(as == 0, ac == 0))
		}
		na := 2 - vChoice(t+"naddr", vBound("c14t.naddr", 3)) // 2, 1, (-> 0 with the full bound)
		if na < 0 {
			na = 0
		}
		line := "  " + cs + ": " + ss + " [ " + acs + ": " + ass + "] @"
		r := rec{c: c, s: s, ac: ac, as: as}
		for j := 0; j < na; j++ {
			k := (i + j) % len(vTextAddrs)
			line += " " + vTextAddrs[k]
			r.addrs = append(r.addrs, vTextAddrVals[k])
		}
		doc += line + "\n"
		recs = append(recs, r)
	}
	withMap := vChoice("maps", 2) == 1
	if withMap {
		doc += "\nMAPPED_LIBRARIES:\n00001000-0000b000 r-xp 00000000 00:00 0 /bin/prog\n"
	}
	p, err := ParseData([]byte(doc))
	vReach("C14.heaptext:parsed")
	if err != nil {
		vAssert(false, "C14.heaptext.rejected: a well-formed heap profile was rejected")
		return
	}
	vAssert(p.CheckValid() == nil, "C14.heaptext.valid: parsed heap profile is not valid")
	nt := 2
	if wantAlloc {
		nt = 4
	}
	if len(p.SampleType) != nt {
		vAssert(false, "C14.heaptext.types: sample types do not follow the header (alloc columns iff the header's totals differ)")
		return
	}
	if len(p.Sample) != nrec {
		vAssert(false, "C14.heaptext.records: not one sample per record")
		return
	}
	for i, r := range recs {
		s := p.Sample[i]
		if len(s.Value) != nt {
			vAssert(false, "C14.heaptext.values: wrong number of values")
			return
		}
		if wantAlloc {
			vAssert(vAnd(vAnd(s.Value[0] == r.ac, s.Value[1] == r.as), vAnd(s.Value[2] == r.c, s.Value[3] == r.s)), "C14.heaptext.value: sample values are not [alloc_objects alloc_space inuse_objects inuse_space] of the record")
		} else {
			vAssert(vAnd(s.Value[0] == r.c, s.Value[1] == r.s), "C14.heaptext.value: sample values are not [objects space] of the record")
		}
		if len(s.Location) != len(r.addrs) {
			vAssert(false, "C14.heaptext.stack: stack depth differs from the record")
			return
		}
		for j, a := range r.addrs {
			vAssert(s.Location[j].Address == a-1, "C14.heaptext.addr: a call-site address is not the record's address moved back by one")
		}
		bs := s.NumLabel["bytes"]
		if len(bs) != 1 {
			vAssert(false, "C14.heaptext.blocksize: no single block-size label")
			return
		}
		if r.c != 0 {
			vAssert(bs[0] == r.s/r.c, "C14.heaptext.blocksize: block-size label is not in-use bytes / in-use objects")
		}
	}
	if withMap {
		ok := len(p.Mapping) == 1
		if ok {
			m := p.Mapping[0]
			ok = m.Start == 0x1000 && m.Limit == 0xb000 && m.File == "/bin/prog"
		}
		vAssert(ok, "C14.heaptext.mapping: mapping not taken from the trailing memory map")
	}
	vObserve(len(p.Sample), len(p.Location), len(p.Mapping))
}

func init() {
	vRegister("VerifC14CountText", VerifC14CountText)
	vRegister("VerifC14ThreadText", VerifC14ThreadText)
	vRegister("VerifC14ContentionText", VerifC14ContentionText)
	vRegister("VerifC14JavaText", VerifC14JavaText)
}

func vCheckStack(s *Sample, addrs []uint64, keepLeaf bool, label string) bool {
	if len(s.Location) != len(addrs) {
		vAssert(false, label+".stack: stack depth differs from the record")
		return false
	}
	for j, a := range addrs {
		want := a - 1
		if keepLeaf && j == 0 {
			want = a
		}
		vAssert(s.Location[j].Address == want, label+".addr: an address is not the record's (call sites moved back by one, leaf kept where the format says so)")
	}
	return true
}

// VerifC14CountText: Go count profiles ("goroutine profile: total N" / "n @ 0x.. 0x..").
func VerifC14CountText() {
	nd := 1 + vChoice("ndigits", vBound("c14t.digits", 2))
	kinds := []string{"goroutine", "threadcreate"}
	kind := kinds[vChoice("kind", 2)]
	ts, _ := vDigitsP("total", nd)
	doc := ""
	if vChoice("leading", 2) == 1 {
		doc += "# comment first\n\n"
	}
	doc += kind + " profile: total " + ts + "\n"
	nrec := 1 + vChoice("records", vBound("c14t.records", 2))
	var counts []int64
	var stacks [][]uint64
	for i := 0; i < nrec; i++ {
		t := "r" + strconv.Itoa(i)
		cs, c := vDigitsP(t+"c", nd)
		na := 1 + vChoice(t+"naddr", 2)
		line := cs + " @"
		var as []uint64
		for j := 0; j < na; j++ {
			k := (i + j) % len(vTextAddrs)
			line += " " + vTextAddrs[k]
			as = append(as, vTextAddrVals[k])
		}
		doc += line + "\n"
		if vChoice(t+"post", 2) == 1 {
			doc += "#\t0x1100\tmain.f+0x10\t/x.go:1\n\n"
		}
		counts = append(counts, c)
		stacks = append(stacks, as)
	}
	p, err := ParseData([]byte(doc))
	vReach("C14.counttext:parsed")
	if err != nil {
		vAssert(false, "C14.counttext.rejected: a well-formed count profile was rejected")
		return
	}
	vAssert(p.CheckValid() == nil, "C14.counttext.valid: parsed count profile is not valid")
	ok := len(p.SampleType) == 1
	if ok {
		ok = p.SampleType[0].Type == kind && p.SampleType[0].Unit == "count"
	}
	vAssert(ok, "C14.counttext.type: sample type is not <kind>/count")
	if len(p.Sample) != nrec {
		vAssert(false, "C14.counttext.records: not one sample per record")
		return
	}
	for i, s := range p.Sample {
		vAssert(len(s.Value) == 1 && s.Value[0] == counts[i], "C14.counttext.value: a sample's value is not the record's count")
		if !vCheckStack(s, stacks[i], false, "C14.counttext") {
			return
		}
	}
	vObserve(len(p.Sample), len(p.Location))
}

// VerifC14ThreadText: threadz documents; a "same as previous thread" record adds one to the preceding sample.
func VerifC14ThreadText() {
	doc := ""
	if vChoice("header", 2) == 1 {
		doc += "--- threadz 1 ---\n\n"
	}
	nth := 1 + vChoice("threads", vBound("c14t.threads", 3))
	var want []int64
	var stacks [][]uint64
	for i := 0; i < nth; i++ {
		t := "t" + strconv.Itoa(i)
		doc += "--- Thread 7f794ab9094" + strconv.Itoa(i) + " (name: thr" + strconv.Itoa(i) + "/1424" + strconv.Itoa(i) + ") stack: ---\n"
		same := i > 0 && vChoice(t+"same", 2) == 1
		if same {
			doc += "  (same as previous thread)\n"
			want[len(want)-1]++
			continue
		}
		na := 1 + vChoice(t+"naddr", 2)
		var as []uint64
		if vChoice(t+"oneline", 2) == 1 {
			line := " "
			for j := 0; j < na; j++ {
				k := (i + j) % len(vTextAddrs)
				line += " " + vTextAddrs[k]
				as = append(as, vTextAddrVals[k])
			}
			doc += line + "\n"
		} else {
			for j := 0; j < na; j++ {
				k := (i + j) % len(vTextAddrs)
				doc += "  PC: " + vTextAddrs[k] + " func\n"
				as = append(as, vTextAddrVals[k])
			}
		}
		want = append(want, 1)
		stacks = append(stacks, as)
	}
	// threadz printers always close the thread list with the memory-map section
	withMap := vChoice("maps", 2) == 1
	doc += "--- Memory map: ---\n"
	if withMap {
		doc += "00001000-0000b000 r-xp 00000000 00:00 0 /bin/prog\n"
	}
	p, err := ParseData([]byte(doc))
	vReach("C14.threadtext:parsed")
	if err != nil {
		vAssert(false, "C14.threadtext.rejected: a well-formed threadz profile was rejected")
		return
	}
	vAssert(p.CheckValid() == nil, "C14.threadtext.valid: parsed threadz profile is not valid")
	if len(p.Sample) != len(want) {
		vAssert(false, "C14.threadtext.records: not one sample per thread record (same-as-previous records add to the preceding sample)")
		return
	}
	for i, s := range p.Sample {
		vAssert(len(s.Value) == 1 && s.Value[0] == want[i], "C14.threadtext.value: a sample's count is not 1 plus its same-as-previous records")
		if !vCheckStack(s, stacks[i], true, "C14.threadtext") {
			return
		}
	}
	if withMap {
		ok := len(p.Mapping) == 1
		if ok {
			ok = p.Mapping[0].Start == 0x1000 && p.Mapping[0].Limit == 0xb000 && p.Mapping[0].File == "/bin/prog"
		}
		vAssert(ok, "C14.threadtext.mapping: mapping not taken from the trailing memory map")
	}
	vObserve(len(p.Sample), len(p.Location))
}

// VerifC14ContentionText: whole contentionz / Go mutex documents.
func VerifC14ContentionText() {
	heads := []string{"--- contentionz 1 ---", "--- mutex:", "--- contention:"}
	nd := 1 + vChoice("ndigits", vBound("c14t.digits", 2))
	doc := heads[vChoice("head", 3)] + "\n"
	period := []int64{0, 1, 100}[vChoice("period", 3)]
	cpuHz := []int64{0, 1000000000, 2000000000}[vChoice("cpuhz", 3)]
	if cpuHz != 0 {
		doc += "cycles/second = " + strconv.FormatInt(cpuHz, 10) + "\n"
	}
	wantPeriod := int64(1)
	if period != 0 {
		doc += "sampling period = " + strconv.FormatInt(period, 10) + "\n"
		wantPeriod = period
	}
	var wantDur int64
	extra := vChoice("extra", vBound("c14t.extra", 4)) // 0 none, 1 ms, 2 ms + discarded, 3 discarded
	if extra == 1 || extra == 2 {
		ms, msv := vDigitsP("ms", nd)
		doc += "ms since reset = " + ms + "\n"
		wantDur = msv * 1000 * 1000
	}
	if extra >= 2 {
		doc += "discarded samples = 0\n"
	}
	nrec := 1 + vChoice("records", vBound("c14t.records", 2))
	type rec struct {
		delay, count int64
		addrs        []uint64
	}
	var recs []rec
	for i := 0; i < nrec; i++ {
		t := "r" + strconv.Itoa(i)
		ds, d := vDigitsP(t+"d", nd)
		cs, c := vDigitsP(t+"c", nd)
		na := 1 + vChoice(t+"naddr", 2)
		line := ds + " " + cs + " @"
		r := rec{delay: d, count: c}
		for j := 0; j < na; j++ {
			k := (i + j) % len(vTextAddrs)
			line += " " + vTextAddrs[k]
			r.addrs = append(r.addrs, vTextAddrVals[k])
		}
		doc += line + "\n"
		recs = append(recs, r)
	}
	p, err := ParseData([]byte(doc))
	vReach("C14.contentiontext:parsed")
	if err != nil {
		vAssert(false, "C14.contentiontext.rejected: a well-formed contention profile was rejected")
		return
	}
	vAssert(p.CheckValid() == nil, "C14.contentiontext.valid: parsed contention profile is not valid")
	vAssert(p.Period == wantPeriod, "C14.contentiontext.period: period is not the document's sampling period")
	vAssert(p.DurationNanos == wantDur, "C14.contentiontext.duration: duration is not 'ms since reset' in nanoseconds")
	if len(p.Sample) != nrec {
		vAssert(false, "C14.contentiontext.records: not one sample per record")
		return
	}
	for i, r := range recs {
		s := p.Sample[i]
		// (a document without a "sampling period" line has period 1)
		wc, wd := r.count*wantPeriod, r.delay
		if cpuHz > 0 {
			wd = int64(float64(r.delay) * float64(wantPeriod) / (float64(cpuHz) / 1e9))
		}
		vAssert(len(s.Value) == 2 && s.Value[0] == wc, "C14.contentiontext.count: contention count is not the record's count times the sampling period")
		vAssert(len(s.Value) == 2 && s.Value[1] == wd, "C14.contentiontext.delay: delay is not the record's delay scaled by period/GHz")
		if !vCheckStack(s, r.addrs, false, "C14.contentiontext") {
			return
		}
	}
	vObserve(len(p.Sample), p.Period)
}

// VerifC14JavaText: Java heapz / contentionz documents with their location table.
func VerifC14JavaText() {
	heap := vChoice("kind", 2) == 0
	nd := 1 + vChoice("ndigits", vBound("c14t.digits", 2))
	var doc string
	period := int64(0)
	if heap {
		doc = "--- heapz 1 ---\nformat = java\nresolution = bytes\n"
	} else {
		doc = "--- contentionz 1 ---\nformat = java\nresolution = microseconds\n"
		period = []int64{0, 1, 100}[vChoice("period", 3)]
		if period != 0 {
			doc += "sampling period = " + strconv.FormatInt(period, 10) + "\n"
		}
	}
	nrec := 1 + vChoice("records", vBound("c14t.records", 2))
	type rec struct {
		v1, v2 int64 // as printed: first and second number of the line
		addrs  []int
	}
	var recs []rec
	locNames := []string{"a.b.Main.run", "GC", "libjvm.so"}
	locLines := []string{"a.b.Main.run (Main.java:42)", "GC", "libjvm.so (/usr/lib/libjvm.so)"}
	for i := 0; i < nrec; i++ {
		t := "r" + strconv.Itoa(i)
		s1, v1 := vDigitsP(t+"a", nd)
		s2, v2 := vDigitsP(t+"b", nd)
		if heap {
			// heapz: bytes then objects; a record has objects, and (sampled) bytes with them
			vAssume(v2 >= 1)
			vAssume(v1 == 0) // zero-sized: no unsampling involved (exp is outside the engine)
		}
		na := 1 + vChoice(t+"naddr", 2)
		line := "  " + s1 + " " + s2 + " @"
		r := rec{v1: v1, v2: v2}
		for j := 0; j < na; j++ {
			k := (i + j) % 3
			line += " 0x" + strconv.FormatInt(int64(0x10+k), 16)
			r.addrs = append(r.addrs, k)
		}
		doc += line + "\n"
		recs = append(recs, r)
	}
	doc += "\n"
	for k := range locLines {
		doc += "  0x" + strconv.FormatInt(int64(0x10+k), 16) + " " + locLines[k] + "\n"
	}
	p, err := ParseData([]byte(doc))
	vReach("C14.javatext:parsed")
	if err != nil {
		vAssert(false, "C14.javatext.rejected: a well-formed Java profile was rejected")
		return
	}
	vAssert(p.CheckValid() == nil, "C14.javatext.valid: parsed Java profile is not valid")
	if len(p.Sample) != nrec {
		vAssert(false, "C14.javatext.records: not one sample per record")
		return
	}
	for i, r := range recs {
		s := p.Sample[i]
		// Java lines carry their two numbers in the opposite order of the sample types
		w0, w1 := r.v2, r.v1
		if heap {
			w0, w1 = 0, 0 // zero bytes: unsampled estimate is 0 objects / 0 bytes
		} else if period != 0 {
			w0, w1 = w0*period, w1*period
		}
		vAssert(len(s.Value) == 2 && vAnd(s.Value[0] == w0, s.Value[1] == w1), "C14.javatext.value: sample values are not the record's (count first, then bytes/delay; contention scaled by the period)")
		if len(s.Location) != len(r.addrs) {
			vAssert(false, "C14.javatext.stack: stack depth differs from the record")
			return
		}
		for j, k := range r.addrs {
			l := s.Location[j]
			ok := len(l.Line) == 1 && l.Line[0].Function != nil
			if ok {
				ok = l.Line[0].Function.Name == locNames[k]
			}
			vAssert(ok, "C14.javatext.frame: a frame's function is not the one the location table gives for its address")
		}
	}
	vObserve(len(p.Sample), len(p.Function))
}

func init() { vRegister("VerifC14HeapUnsample", VerifC14HeapUnsample) }

// VerifC14HeapUnsample: sampled heap profiles (heap_v2 with a rate above 1):
// every record is unsampled by 1/(1-exp(-size/count/rate)) computed from that
// record's own count and size (records enumerated from a pool with equal
// counts, equal integer block sizes and different remainders; the exponential
// is outside the solvers' reach, so nothing is symbolic here).
func VerifC14HeapUnsample() {
	pool := [][2]int64{{3, 1000}, {3, 1001}, {3, 1002}, {7, 7168}, {1, 524288}, {2, 12}}
	rate := []int64{512, 524288, 4096}[vChoice("rate", 3)]
	i, j := vChoice("rec0", len(pool)), vChoice("rec1", len(pool))
	recs := [][2]int64{pool[i], pool[j]}
	doc := "heap profile: 1: 2 [ 3: 4] @ heap_v2/" + strconv.FormatInt(rate, 10) + "\n"
	for k, r := range recs {
		cs, ss := strconv.FormatInt(r[0], 10), strconv.FormatInt(r[1], 10)
		doc += "  " + cs + ": " + ss + " [ " + cs + ": " + ss + "] @ " + vTextAddrs[k] + "\n"
	}
	p, err := ParseData([]byte(doc))
	vReach("C14.unsample:parsed")
	if err != nil || len(p.Sample) != 2 {
		vAssert(false, "C14.unsample.rejected: a well-formed sampled heap profile was rejected or lost a record")
		return
	}
	for k, r := range recs {
		avg := float64(r[1]) / float64(r[0])
		scale := 1 / (1 - math.Exp(-avg/float64(rate)))
		wc, ws := int64(float64(r[0])*scale), int64(float64(r[1])*scale)
		v := p.Sample[k].Value
		// the header's totals differ, so the columns are alloc then in-use (equal here)
		ok := len(v) == 4
		if ok {
			ok = v[0] == wc && v[1] == ws && v[2] == wc && v[3] == ws
		}
		vAssert(ok, "C14.unsample.value: a record is not unsampled by the factor of its own count and size")
	}
	vObserve(p.Sample[0].Value[0], p.Sample[1].Value[1])
}
