//go:build verif

package profile

import "strconv"

func init() {
	vRegister("VerifC14HeapText", VerifC14HeapText)
}

var vTextAddrs = []string{"0x1100", "0x2001", "0xabc0"}
var vTextAddrVals = []uint64{0x1100, 0x2001, 0xabc0}

// VerifC14HeapText prints a gperftools/Go heap profile from a model (header
// variant, 1-2 records with symbolic decimal fields, comment and blank lines,
// optional memory map) and checks the parsed profile against the model:
// one sample per record in order, call-site addresses moved back by one,
// [alloc_objects alloc_space inuse_objects inuse_space] or [objects space]
// as the header prescribes, block-size label, mapping from the memory map.
func VerifC14HeapText() {
	headers := []string{"heapprofile", "heap_v2/1", "heap/2", "heap_v2/0", "growthz", "fragmentationz"}
	hv := vChoice("header", vBound("c14t.headers", len(headers)))
	nd := 1 + vChoice("ndigits", vBound("c14t.digits", 2))
	ho, _ := vDigitsP("ho", nd)
	hb, _ := vDigitsP("hb", nd)
	// the header's allocation totals: equal to in-use, zero, or different
	var hao, hab string
	switch vChoice("halloc", 3) {
	case 0:
		hao, hab = ho, hb
	case 1:
		hao, hab = "0", "0"
	case 2:
		hao, _ = vDigitsP("hao", nd)
		hab, _ = vDigitsP("hab", nd)
	}
	doc := "heap profile: " + ho + ": " + hb + " [ " + hao + ": " + hab + "] @ " + headers[hv] + "\n"
	wantAlloc := false
	if hv < 4 {
		a := vOr(vAnd(!vStrEq(hao, ho), !vStrEq(hao, "0")), vAnd(!vStrEq(hab, hb), !vStrEq(hab, "0")))
		if a {
			wantAlloc = true
		}
	}
	nrec := 1 + vChoice("records", vBound("c14t.records", 2))
	type rec struct {
		c, s, ac, as int64
		addrs       []uint64
	}
	var recs []rec
	for i := 0; i < nrec; i++ {
		t := "r" + strconv.Itoa(i)
		if vChoice(t+"pre", 3) == 1 {
			doc += "# comment\n"
		} else if vChoice(t+"pre", 3) == 2 {
			doc += "\n"
		}
		cs, c := vDigitsP(t+"c", nd)
		ss, s := vDigitsP(t+"s", nd)
		acs, ac := vDigitsP(t+"ac", nd)
		ass, as := vDigitsP(t+"as", nd)
		// well-formed: a zero count comes with zero bytes
		vAssume(vImplies(c == 0, s == 0))
		vAssume(vImplies(ac == 0, as == 0))
		if hv >= 1 && hv <= 3 {
			// sampled (v2) formats: a sampled record never has objects without
			// bytes (its sampling probability 1-exp(-size/rate) would be 0)
			vAssume(vImplies(s == 0, c == 0))
			vAssume(vImplies(as == 0, ac == 0))
		}
		na := vChoice(t+"naddr", 3)
		line := "  " + cs + ": " + ss + " [ " + acs + ": " + ass + "] @"
		r := rec{c: c, s: s, ac: ac, as: as}
		for j := 0; j < na; j++ {
			k := (i + j) % len(vTextAddrs)
			line += " " + vTextAddrs[k]
			r.addrs = append(r.addrs, vTextAddrVals[k])
		}
		doc += line + "\n"
		recs = append(recs, r)
	}
	withMap := vChoice("maps", 2) == 1
	if withMap {
		doc += "\nMAPPED_LIBRARIES:\n00001000-0000b000 r-xp 00000000 00:00 0 /bin/prog\n"
	}
	p, err := ParseData([]byte(doc))
	vReach("C14.heaptext:parsed")
	if err != nil {
		vAssert(false, "C14.heaptext.rejected: a well-formed heap profile was rejected")
		return
	}
	vAssert(p.CheckValid() == nil, "C14.heaptext.valid: parsed heap profile is not valid")
	nt := 2
	if wantAlloc {
		nt = 4
	}
	if len(p.SampleType) != nt {
		vAssert(false, "C14.heaptext.types: sample types do not follow the header (alloc columns iff the header's totals differ)")
		return
	}
	if len(p.Sample) != nrec {
		vAssert(false, "C14.heaptext.records: not one sample per record")
		return
	}
	for i, r := range recs {
		s := p.Sample[i]
		if len(s.Value) != nt {
			vAssert(false, "C14.heaptext.values: wrong number of values")
			return
		}
		if wantAlloc {
			vAssert(vAnd(vAnd(s.Value[0] == r.ac, s.Value[1] == r.as), vAnd(s.Value[2] == r.c, s.Value[3] == r.s)), "C14.heaptext.value: sample values are not [alloc_objects alloc_space inuse_objects inuse_space] of the record")
		} else {
			vAssert(vAnd(s.Value[0] == r.c, s.Value[1] == r.s), "C14.heaptext.value: sample values are not [objects space] of the record")
		}
		if len(s.Location) != len(r.addrs) {
			vAssert(false, "C14.heaptext.stack: stack depth differs from the record")
			return
		}
		for j, a := range r.addrs {
			vAssert(s.Location[j].Address == a-1, "C14.heaptext.addr: a call-site address is not the record's address moved back by one")
		}
		bs := s.NumLabel["bytes"]
		if len(bs) != 1 {
			vAssert(false, "C14.heaptext.blocksize: no single block-size label")
			return
		}
		if r.c != 0 {
			vAssert(bs[0] == r.s/r.c, "C14.heaptext.blocksize: block-size label is not in-use bytes / in-use objects")
		}
	}
	if withMap {
		ok := len(p.Mapping) == 1
		if ok {
			m := p.Mapping[0]
			ok = m.Start == 0x1000 && m.Limit == 0xb000 && m.File == "/bin/prog"
		}
		vAssert(ok, "C14.heaptext.mapping: mapping not taken from the trailing memory map")
	}
	vObserve(len(p.Sample), len(p.Location), len(p.Mapping))
}
