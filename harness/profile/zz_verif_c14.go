//go:build verif

package profile

import "strconv"

func init() {
	vRegister("VerifC14BinaryCPU", VerifC14BinaryCPU)
	vRegister("VerifC14ContentionSample", VerifC14ContentionSample)
}

// vPutWord appends w in the given word size / endianness.
func vPutWord(b []byte, w uint64, size int, big bool) []byte {
	for i := 0; i < size; i++ {
		sh := uint(8 * i)
		if big {
			sh = uint(8 * (size - 1 - i))
		}
		b = append(b, byte(w>>sh))
	}
	return b
}

// VerifC14BinaryCPU: a well-formed binary CPU profile of either word size and
// endianness converts to one sample per record, in order, with the documented
// values and addresses.
func VerifC14BinaryCPU() {
	size := []int{8, 4}[vChoice("wordsize", 2)]
	big := vChoice("bigendian", 2) == 1
	nrec := 1 + vChoice("records", vBound("c14.records", 2))
	// the period is enumerated (count*period with both symbolic is a 64-bit multiplier circuit)
	period := []uint64{10000, 1, 1 << 19}[vChoice("period", vBound("c14.periods", 3))]
	wordMask := ^uint64(0)
	if size == 4 {
		wordMask = 0xffffffff
	}
	var data []byte
	for _, w := range []uint64{0, 3, 0, period, 0} {
		data = vPutWord(data, w, size, big)
	}
	type rec struct {
		count uint64
		addrs []uint64
	}
	var recs []rec
	for r := 0; r < nrec; r++ {
		rn := strconv.Itoa(r)
		nstk := 1 + vChoice("nstk"+rn, vBound("c14.frames", 3))
		rc := rec{count: vUint64("count" + rn)}
		vAssume(rc.count > 0)
		vAssume(rc.count < 1<<20)
		for f := 0; f < nstk; f++ {
			a := vUint64("addr" + rn + "." + strconv.Itoa(f))
			vAssume(a > 1)
			vAssume(a <= wordMask)
			rc.addrs = append(rc.addrs, a)
		}
		recs = append(recs, rc)
		data = vPutWord(data, rc.count, size, big)
		data = vPutWord(data, uint64(nstk), size, big)
		for _, a := range rc.addrs {
			data = vPutWord(data, a, size, big)
		}
	}
	for _, w := range []uint64{0, 1, 0} {
		data = vPutWord(data, w, size, big)
	}

	p, err := parseCPU(data)
	vReach("C14.cpu:parsed")
	if err != nil {
		vAssert(false, "C14.cpu.rejected: a well-formed binary CPU profile was rejected")
		return
	}
	// reference, from the statement: leaf kept, callers moved back by one ...
	stacks := make([][]uint64, nrec)
	for r, rc := range recs {
		for f, a := range rc.addrs {
			if f > 0 {
				a--
			}
			stacks[r] = append(stacks[r], a)
		}
	}
	// ... a second frame shared by (nearly) all samples is a signal-handler frame (up to two rounds) ...
	for iter := 0; iter < 2; iter++ {
		all := true
		for r := range stacks {
			if len(stacks[r]) < 2 || stacks[r][1] != stacks[0][1] {
				all = false
				break
			}
		}
		if all {
			for r := range stacks {
				stacks[r] = append(append([]uint64{}, stacks[r][:1]...), stacks[r][2:]...)
			}
		}
	}
	// ... and a leaf duplicated by the unwinder is dropped.
	for r := range stacks {
		if len(stacks[r]) > 1 && stacks[r][0] == stacks[r][1]+1 {
			stacks[r] = append(append([]uint64{}, stacks[r][:1]...), stacks[r][2:]...)
		}
	}
	vAssert(len(p.Sample) == nrec, "C14.cpu.count: not one sample per record")
	if len(p.Sample) != nrec {
		return
	}
	vAssert(p.Period == int64(period)*1000, "C14.cpu.period: period is not the header period in nanoseconds")
	for r, s := range p.Sample {
		vAssert(len(s.Value) == 2 && s.Value[0] == int64(recs[r].count) && s.Value[1] == int64(recs[r].count)*int64(period)*1000, "C14.cpu.values: sample values are not [count, count*period]")
		if len(s.Location) != len(stacks[r]) {
			vAssert(false, "C14.cpu.depth: stack depth differs from the documented conversion")
			continue
		}
		for f, l := range s.Location {
			vAssert(l.Address == stacks[r][f], "C14.cpu.address: stack address differs from the documented conversion")
		}
	}
	vAssert(p.CheckValid() == nil, "C14.cpu.valid: converted profile is not valid")
	vObserve(len(p.Sample), len(p.Location), p.Period)
}

// vDigitsP returns a decimal number of n symbolic digits (no leading zero) and its value.
func vDigitsP(tag string, n int) (string, int64) {
	b := make([]byte, n)
	var v int64
	for i := range b {
		d := vByte(tag + strconv.Itoa(i))
		vAssume(d >= '0')
		vAssume(d <= '9')
		if i == 0 && n > 1 {
			vAssume(d != '0')
		}
		b[i] = d
		v = v*10 + int64(d-'0')
	}
	return string(b), v
}

// VerifC14ContentionSample: a contention record "delay count @ addr..." is
// converted with the documented values: count multiplied by the sampling
// period, delay scaled by period/GHz when cycles/second is known.
func VerifC14ContentionSample() {
	var ds string
	var delay int64
	if nd := vChoice("ndelay", 6); nd < 3 {
		ds, delay = vDigitsP("delay", 1+nd)
	} else {
		// large delays (cycles): fixed magnitudes around the points where a
		// cycles-to-nanoseconds conversion in integers would overflow
		// (symbolic 11-digit decimals times 1e9 are out of the solvers' reach)
		big := []int64{12500000000, 9223372037, 92233720368547}
		delay = big[nd-3]
		ds = strconv.FormatInt(delay, 10)
	}
	cs, count := vDigitsP("count", 1+vChoice("ncount", 3))
	line := ds + " " + cs + " @ 0x10 0x20"
	period := []int64{0, 1, 100}[vChoice("period", 3)]
	cpuHz := []int64{0, 1000000000, 2000000000}[vChoice("cpuhz", 3)]
	value, addrs, err := parseContentionSample(line, period, cpuHz)
	vReach("C14.contention:parsed")
	if err != nil {
		vAssert(false, "C14.contention.rejected: a well-formed contention record was rejected")
		return
	}
	vAssert(len(addrs) == 2 && addrs[0] == 0x10 && addrs[1] == 0x20, "C14.contention.addrs: stack addresses changed")
	wantCount, wantDelay := count, delay
	if period > 0 {
		wantCount = count * period
		if cpuHz > 0 {
			wantDelay = int64(float64(delay) * float64(period) / (float64(cpuHz) / 1e9))
		}
	}
	vAssert(len(value) == 2 && value[0] == wantCount, "C14.contention.count: contention count is not the record's count times the sampling period")
	vAssert(len(value) == 2 && value[1] == wantDelay, "C14.contention.delay: delay is not the record's delay scaled by period/GHz")
	vObserve(value[0], value[1])
}

func init() { vRegister("VerifC08LegacyCPUOrder", VerifC08LegacyCPUOrder) }

// VerifC08LegacyCPUOrder (property C08): parsing the same legacy binary CPU
// profile gives the same profile whatever order Go's maps are iterated in -
// few samples with different or equal second frames (where the heuristics
// that strip a shared signal-handler frame tally candidates in a map).
func VerifC08LegacyCPUOrder() {
	size, big := 8, false
	var data []byte
	for _, w := range []uint64{0, 3, 0, 10000, 0} {
		data = vPutWord(data, w, size, big)
	}
	nrec := 2 + vChoice("records", 2)
	seconds := []uint64{0x2000, 0x3000, 0x2000}
	eq := vChoice("equalsecond", 2) == 1
	for r := 0; r < nrec; r++ {
		data = vPutWord(data, 1, size, big)
		data = vPutWord(data, 3, size, big)
		data = vPutWord(data, uint64(0x1000+0x10*r), size, big)
		s := seconds[r]
		if eq {
			s = 0x2000
		}
		data = vPutWord(data, s, size, big)
		data = vPutWord(data, 0x9000, size, big)
	}
	for _, w := range []uint64{0, 1, 0} {
		data = vPutWord(data, w, size, big)
	}
	parse := func(mode string) string {
		vMapOrder(mode)
		p, err := parseCPU(append([]byte{}, data...))
		if err != nil {
			return "error"
		}
		return p.String()
	}
	first := parse("insertion")
	second := parse("reverse")
	third := parse("rotate")
	vMapOrder("")
	vReach("C08.cpuorder:parsed")
	vAssert(vAnd(vStrEq(first, second), vStrEq(first, third)), "sched:C08.cpuorder: parsing the same binary CPU profile depends on map iteration order")
}
