//go:build verif

package profile

import "strconv"

func init() {
	vRegister("VerifC14BinaryCPU", VerifC14BinaryCPU)
}

// vPutWord appends w in the given word size / endianness.
func vPutWord(b []byte, w uint64, size int, big bool) []byte {
	for i := 0; i < size; i++ {
		sh := uint(8 * i)
		if big {
			sh = uint(8 * (size - 1 - i))
		}
		b = append(b, byte(w>>sh))
	}
	return b
}

// VerifC14BinaryCPU: a well-formed binary CPU profile of either word size and
// endianness converts to one sample per record, in order, with the documented
// values and addresses.
func VerifC14BinaryCPU() {
	size := []int{8, 4}[vChoice("wordsize", 2)]
	big := vChoice("bigendian", 2) == 1
	nrec := 1 + vChoice("records", vBound("c14.records", 2))
	// the period is enumerated (count*period with both symbolic is a 64-bit multiplier circuit)
	period := []uint64{10000, 1, 1 << 19}[vChoice("period", vBound("c14.periods", 3))]
	wordMask := ^uint64(0)
	if size == 4 {
		wordMask = 0xffffffff
	}
	var data []byte
	for _, w := range []uint64{0, 3, 0, period, 0} {
		data = vPutWord(data, w, size, big)
	}
	type rec struct {
		count uint64
		addrs []uint64
	}
	var recs []rec
	for r := 0; r < nrec; r++ {
		rn := strconv.Itoa(r)
		nstk := 1 + vChoice("nstk"+rn, vBound("c14.frames", 3))
		rc := rec{count: vUint64("count" + rn)}
		vAssume(rc.count > 0)
		vAssume(rc.count < 1<<20)
		for f := 0; f < nstk; f++ {
			a := vUint64("addr" + rn + "." + strconv.Itoa(f))
			vAssume(a > 1)
			vAssume(a <= wordMask)
			rc.addrs = append(rc.addrs, a)
		}
		recs = append(recs, rc)
		data = vPutWord(data, rc.count, size, big)
		data = vPutWord(data, uint64(nstk), size, big)
		for _, a := range rc.addrs {
			data = vPutWord(data, a, size, big)
		}
	}
	for _, w := range []uint64{0, 1, 0} {
		data = vPutWord(data, w, size, big)
	}

	p, err := parseCPU(data)
	vReach("C14.cpu:parsed")
	if err != nil {
		vAssert(false, "C14.cpu.rejected: a well-formed binary CPU profile was rejected")
		return
	}
	// reference, from the statement: leaf kept, callers moved back by one ...
	stacks := make([][]uint64, nrec)
	for r, rc := range recs {
		for f, a := range rc.addrs {
			if f > 0 {
				a--
			}
			stacks[r] = append(stacks[r], a)
		}
	}
	// ... a second frame shared by (nearly) all samples is a signal-handler frame (up to two rounds) ...
	for iter := 0; iter < 2; iter++ {
		all := true
		for r := range stacks {
			if len(stacks[r]) < 2 || stacks[r][1] != stacks[0][1] {
				all = false
				break
			}
		}
		if all {
			for r := range stacks {
				stacks[r] = append(append([]uint64{}, stacks[r][:1]...), stacks[r][2:]...)
			}
		}
	}
	// ... and a leaf duplicated by the unwinder is dropped.
	for r := range stacks {
		if len(stacks[r]) > 1 && stacks[r][0] == stacks[r][1]+1 {
			stacks[r] = append(append([]uint64{}, stacks[r][:1]...), stacks[r][2:]...)
		}
	}
	vAssert(len(p.Sample) == nrec, "C14.cpu.count: not one sample per record")
	if len(p.Sample) != nrec {
		return
	}
	vAssert(p.Period == int64(period)*1000, "C14.cpu.period: period is not the header period in nanoseconds")
	for r, s := range p.Sample {
		vAssert(len(s.Value) == 2 && s.Value[0] == int64(recs[r].count) && s.Value[1] == int64(recs[r].count)*int64(period)*1000, "C14.cpu.values: sample values are not [count, count*period]")
		if len(s.Location) != len(stacks[r]) {
			vAssert(false, "C14.cpu.depth: stack depth differs from the documented conversion")
			continue
		}
		for f, l := range s.Location {
			vAssert(l.Address == stacks[r][f], "C14.cpu.address: stack address differs from the documented conversion")
		}
	}
	vAssert(p.CheckValid() == nil, "C14.cpu.valid: converted profile is not valid")
	vObserve(len(p.Sample), len(p.Location), p.Period)
}
