//go:build verif

package profile

import "strconv"

func init() { vRegister("VerifC11Nameless", VerifC11Nameless) }

// VerifC11Nameless: locations without symbol data (no lines, a line without
// a function, a function with an empty name) carry no name a rule could
// match: they count as non-matching frames and are never the cut point.
// One sample of four locations, each of kind {named a, named b, no lines,
// line without function, function with empty name}; drop/keep/prune_from
// expressions are arbitrary predicates on names. Observed per location.
func VerifC11Nameless() {
	const depth = 4
	kinds := make([]int, depth)
	for i := range kinds {
		kinds[i] = vChoice("kind"+strconv.Itoa(i), 5)
	}
	p := &Profile{SampleType: []*ValueType{{Type: "samples", Unit: "count"}}}
	fa := &Function{ID: 1, Name: "a", SystemName: "a", Filename: "f.go"}
	fb := &Function{ID: 2, Name: "b", SystemName: "b", Filename: "f.go"}
	fe := &Function{ID: 3, Name: "", SystemName: "", Filename: "f.go"}
	p.Function = []*Function{fa, fb, fe}
	s := &Sample{Value: []int64{7}, Label: map[string][]string{"k": {"v"}}}
	locs := make([]*Location, depth) // root first
	for i, k := range kinds {
		l := &Location{ID: uint64(i + 1), Address: uint64(0x1000 + i)}
		switch k {
		case 0:
			l.Line = []Line{{Function: fa, Line: 1}}
		case 1:
			l.Line = []Line{{Function: fb, Line: 2}}
		case 2: // unsymbolized
		case 3:
			l.Line = []Line{{Line: 3}}
		case 4:
			l.Line = []Line{{Function: fe, Line: 4}}
		}
		locs[i] = l
		p.Location = append(p.Location, l)
	}
	for i := depth - 1; i >= 0; i-- {
		s.Location = append(s.Location, locs[i])
	}
	p.Sample = []*Sample{s}
	name := func(i int) (string, bool) {
		switch kinds[i] {
		case 0:
			return "a", true
		case 1:
			return "b", true
		}
		return "", false
	}
	remaining := func() []int { // ids root first
		var out []int
		for i := len(s.Location) - 1; i >= 0; i-- {
			out = append(out, int(s.Location[i].ID))
		}
		return out
	}
	check := func(got []int, keepN int, what string) {
		vObserve(len(got))
		vAssert(len(p.Sample) == 1 && s.Value[0] == 7 && len(s.Label) == 1 && s.Label["k"][0] == "v", "C11.nameless."+what+".values: sample count, values or labels changed")
		ok := len(got) == keepN
		for i := 0; ok && i < keepN; i++ {
			ok = got[i] == i+1
		}
		vAssert(ok, "C11.nameless."+what+": with locations that carry no function name the remaining frames differ from the documented rule")
		for i, l := range locs {
			switch kinds[i] {
			case 2:
				vAssert(len(l.Line) == 0, "C11.nameless."+what+".lines: an unsymbolized location got lines")
			default:
				vAssert(len(l.Line) == 1, "C11.nameless."+what+".lines: the lines of a single-frame location changed")
			}
		}
	}
	if vChoice("mode", 2) == 0 {
		drop := vRegexp("drop")
		keep := vRegexp("keep")
		useKeep := vChoice("usekeep", 2) == 1
		cut := depth
		sawUser := false
		for i := 0; i < depth; i++ {
			n, named := name(i)
			m := named && drop.MatchString(n) && !(useKeep && keep.MatchString(n))
			if m {
				if sawUser {
					cut = i
					break
				}
			} else {
				sawUser = true
			}
		}
		if useKeep {
			p.Prune(drop, keep)
		} else {
			p.Prune(drop, nil)
		}
		vReach("C11.nameless:pruned")
		check(remaining(), cut, "prune")
		return
	}
	rx := vRegexp("from")
	keepN := depth
	for i := depth - 1; i >= 0; i-- {
		if n, named := name(i); named && rx.MatchString(n) {
			keepN = i + 1
			break
		}
	}
	p.PruneFrom(rx)
	vReach("C11.nameless:prunedfrom")
	check(remaining(), keepN, "prunefrom")
}
