//go:build verif

package profile

import (
	"regexp"
	"strconv"
)

func init() {
	vRegister("VerifC06FilterByName", VerifC06FilterByName)
	vRegister("VerifC06Partition", VerifC06Partition)
	vRegister("VerifC06ShowFrom", VerifC06ShowFrom)
	vRegister("VerifC06Tags", VerifC06Tags)
}

// shapes as in C11 (root-first), plus an empty stack
var vC06Shapes = [][][][]int{
	{{{1}, {2}}, {{3}}},
	{{{1, 2}, {3}}},
	{{{1}, {2, 3}}, {{1}}},
	{{{1}, {2}}, {}},
	{{{1, 2, 3}}, {{2}}},
	{{{1}, {}}, {{}, {2}}}, // address-only locations (no line information) at the leaf and at the root
}

func vC06Build(shapeIdx int, names map[int]string, withMapping bool) (*Profile, map[*Function]int) {
	p, ids := vC11Build(vC06Shapes[shapeIdx], names)
	if withMapping {
		m := &Mapping{ID: 1, Start: 0x1000, Limit: 0x2000, File: "bin"}
		p.Mapping = []*Mapping{m}
		p.Location[0].Mapping = m
	}
	return p, ids
}

// vFileVariant reports whether the profile was built with the two-file variant.
func vFileVariant(p *Profile) bool {
	for _, f := range p.Function {
		if f.Filename == "g.go" {
			return true
		}
	}
	return false
}

func vOptRx(name string, on bool) *regexp.Regexp {
	if on {
		return vRegexp(name)
	}
	return nil
}

// VerifC06FilterByName: focus/ignore/hide/show as arbitrary predicates.
func VerifC06FilterByName() {
	si := vChoice("shape", vBound("c06.shapes", len(vC06Shapes)))
	names := vC11Names()
	withMapping := vChoice("mapping", 2) == 1
	// functions may share a name and differ in their source file
	vC11Files = nil
	if vChoice("files", 2) == 1 {
		vC11Files = map[int]string{1: "f.go", 2: "g.go", 3: "g.go"}
	}
	p, ids := vC06Build(si, names, withMapping)
	vC11Files = nil
	fileOf := func(f int) string {
		if f >= 2 && len(p.Function) > 0 && vFileVariant(p) {
			return "g.go"
		}
		return "f.go"
	}
	which := vChoice("filters", vBound("c06.filters", 7))
	// 0 focus, 1 ignore, 2 focus+ignore, 3 hide, 4 show, 5 focus+hide, 6 ignore+show
	useFocus := which == 0 || which == 2 || which == 5
	useIgnore := which == 1 || which == 2 || which == 6
	useHide := which == 3 || which == 5
	useShow := which == 4 || which == 6
	if useHide || useShow {
		// with hide/show the statement allows a frameless sample to be dropped
		// ("dropping a sample only when no frame is left"): not constrained here
		for _, smp := range vC06Shapes[si] {
			vAssume(len(smp) > 0)
		}
	}
	focus, ignore, hide, show := vOptRx("focus", useFocus), vOptRx("ignore", useIgnore), vOptRx("hide", useHide), vOptRx("show", useShow)

	frameMatch := func(re *regexp.Regexp, f int) bool {
		return vOr(re.MatchString(names[f]), re.MatchString(fileOf(f)))
	}
	locMatch := func(re *regexp.Regexp, l *Location, fs []int) bool {
		r := false
		for _, f := range fs {
			r = vOr(r, frameMatch(re, f))
		}
		if l.Mapping != nil {
			r = vOr(r, re.MatchString(l.Mapping.File))
		}
		return r
	}
	shape := vC06Shapes[si]
	type exp struct {
		keep   bool
		frames []int
		nlocs  int
	}
	var want []exp
	for sidx, sample := range shape {
		s := p.Sample[sidx]
		nl := len(sample)
		anyFocus, anyIgnore := false, false
		var frames []int
		nlocs := 0
		for li, lf := range sample { // root-first
			l := s.Location[nl-1-li]
			if useFocus && locMatch(focus, l, lf) {
				anyFocus = true
			}
			if useIgnore && locMatch(ignore, l, lf) {
				anyIgnore = true
			}
			mapHide := useHide && l.Mapping != nil && hide.MatchString(l.Mapping.File)
			mapShow := useShow && l.Mapping != nil && show.MatchString(l.Mapping.File)
			left := 0
			for _, f := range lf {
				if useHide && (mapHide || frameMatch(hide, f)) {
					continue
				}
				if useShow && !(mapShow || frameMatch(show, f)) {
					continue
				}
				frames = append(frames, f)
				left++
			}
			if len(lf) == 0 {
				// an address-only location has no line to hide; it goes when its
				// mapping is hidden, and under show (nothing of it matches)
				if !(mapHide || useShow) {
					nlocs++
				}
			} else if left > 0 {
				nlocs++
			}
		}
		keep := (!useFocus || anyFocus) && !anyIgnore
		if (useHide || useShow) && nlocs == 0 && nl > 0 {
			keep = false // a sample is dropped only when no frame is left
		}
		want = append(want, exp{keep, frames, nlocs})
	}
	p.FilterSamplesByName(focus, ignore, hide, show)
	vReach("C06.byname:done")
	// compare
	k := 0
	for sidx, w := range want {
		if !w.keep {
			continue
		}
		if k >= len(p.Sample) {
			if len(shape[sidx]) == 0 {
				vAssert(false, "C06.byname.empty-stack-dropped: a sample without frames was dropped although no frame matches ignore and no focus is set")
			} else {
				vAssert(false, "C06.byname.dropped: a sample the filters should keep was dropped")
			}
			return
		}
		s := p.Sample[k]
		if s.Value[0] != int64(sidx+1) {
			if len(shape[sidx]) == 0 {
				vAssert(false, "C06.byname.empty-stack-dropped: a sample without frames was dropped although no frame matches ignore and no focus is set")
			} else {
				vAssert(false, "C06.byname.dropped: a sample the filters should keep was dropped")
			}
			return
		}
		k++
		vAssert(len(s.Label) == 1 && s.Label["k"][0] == "v"+strconv.Itoa(sidx), "C06.byname.labels: labels of a kept sample changed")
		vAssert(vSameInts(vC11Frames(s, ids), w.frames), "C06.byname.frames: frames of a kept sample differ from the documented hide/show result")
		vAssert(len(s.Location) == w.nlocs, "C06.byname.locations: a location was removed (or kept) that hide/show do not select - e.g. an address-only frame")
	}
	vAssert(k == len(p.Sample), "C06.byname.extra: a sample the filters should drop was kept")
	vObserve(len(p.Sample))
}

// VerifC06Partition: focus=R and ignore=R split the profile.
func VerifC06Partition() {
	si := vChoice("shape", vBound("c06.shapes", len(vC06Shapes)))
	names := vC11Names()
	withMapping := vChoice("mapping", 2) == 1
	pf, _ := vC06Build(si, names, withMapping)
	pi, _ := vC06Build(si, names, withMapping)
	r := vRegexp("R")
	pf.FilterSamplesByName(r, nil, nil, nil)
	pi.FilterSamplesByName(nil, r, nil, nil)
	n := len(vC06Shapes[si])
	vObserve(len(pf.Sample), len(pi.Sample))
	var tf, ti int64
	for _, s := range pf.Sample {
		tf += s.Value[0]
	}
	for _, s := range pi.Sample {
		ti += s.Value[0]
	}
	total := int64(n * (n + 1) / 2)
	if tf+ti != total || len(pf.Sample)+len(pi.Sample) != n {
		hasEmpty := false
		for _, s := range vC06Shapes[si] {
			if len(s) == 0 {
				hasEmpty = true
			}
		}
		if hasEmpty {
			vAssert(false, "C06.partition.empty-stack: focus=R and ignore=R do not partition a profile that has a sample without frames")
		} else {
			vAssert(false, "C06.partition: focus=R and ignore=R do not partition the profile")
		}
	}
}

// VerifC06ShowFrom: frames above (rootwards of) the highest match are dropped.
func VerifC06ShowFrom() {
	si := vChoice("shape", vBound("c06.shapes", len(vC06Shapes)))
	names := vC11Names()
	p, ids := vC06Build(si, names, false)
	re := vRegexp("showfrom")
	shape := vC06Shapes[si]
	type exp struct {
		keep   bool
		frames []int
	}
	var want []exp
	for _, sample := range shape {
		var fs []int
		for _, lf := range sample {
			fs = append(fs, lf...)
		}
		first := -1
		for i, f := range fs { // highest = root-most match
			if vOr(re.MatchString(names[f]), re.MatchString("f.go")) {
				first = i
				break
			}
		}
		if first < 0 {
			want = append(want, exp{false, nil})
		} else {
			want = append(want, exp{true, fs[first:]})
		}
	}
	p.ShowFrom(re)
	k := 0
	for sidx, w := range want {
		if !w.keep {
			continue
		}
		if k >= len(p.Sample) || p.Sample[k].Value[0] != int64(sidx+1) {
			vAssert(false, "C06.showfrom.dropped: a sample with a matching frame was dropped")
			return
		}
		got := vC11Frames(p.Sample[k], ids)
		k++
		if !vSameInts(got, w.frames) {
			multi := false
			for _, l := range shape[sidx] {
				if len(l) > 1 {
					multi = true
				}
			}
			switch {
			case multi:
				vAssert(false, "C06.showfrom.inline-location: a location with inlined frames below the highest match lost its frames above its own last match")
			case len(shape) > 1:
				vAssert(false, "C06.showfrom.shared-location: frames differ from the documented result (location shared between samples)")
			default:
				vAssert(false, "C06.showfrom.frames: frames differ from the documented result")
			}
		}
	}
	vAssert(k == len(p.Sample), "C06.showfrom.extra: a sample without a matching frame was kept")
	vObserve(len(p.Sample))
}

// VerifC06Tags: tagshow/taghide remove only the labels they describe.
func VerifC06Tags() {
	p := &Profile{SampleType: []*ValueType{{Type: "samples", Unit: "count"}}}
	p.Sample = []*Sample{
		{Value: []int64{1}, Label: map[string][]string{"a": {"x"}, "b": {"y"}}, NumLabel: map[string][]int64{"a": {1}, "c": {2}}},
		{Value: []int64{2}},
	}
	useShow, useHide := vChoice("show", 2) == 1, vChoice("hide", 2) == 1
	show, hide := vOptRx("tagshow", useShow), vOptRx("taghide", useHide)
	keep := func(k string) bool {
		r := true
		if useShow {
			r = vAnd(r, show.MatchString(k))
		}
		if useHide {
			r = vAnd(r, !hide.MatchString(k))
		}
		return r
	}
	p.FilterTagsByName(show, hide)
	s := p.Sample[0]
	for _, k := range []string{"a", "b"} {
		_, has := s.Label[k]
		vAssert(has == keep(k), "C06.tags.label: a string label was kept/removed against the show/hide rule")
	}
	for _, k := range []string{"a", "c"} {
		_, has := s.NumLabel[k]
		vAssert(has == keep(k), "C06.tags.numlabel: a numeric label was kept/removed against the show/hide rule")
	}
	vAssert(len(p.Sample) == 2 && s.Value[0] == 1 && p.Sample[1].Value[0] == 2, "C06.tags.samples: samples or values changed")
	vObserve(len(s.Label), len(s.NumLabel))
}
