//go:build verif

package profile

import (
	"regexp"
	"strconv"
)

func init() {
	vRegister("VerifC11Prune", VerifC11Prune)
	vRegister("VerifC11PruneFrom", VerifC11PruneFrom)
	vRegister("VerifC11NoExpr", VerifC11NoExpr)
}

// vC11Shapes: each shape lists, per sample, its locations root-first; each
// location lists its frames root-first (caller before inlined callee). A
// number is a frame id; frames of a location shared by two samples have the
// same ids.
var vC11Shapes = [][][][]int{
	{{{1}, {2}, {3}}},                 // three plain locations
	{{{1, 2}, {3}}},                   // inlined pair at the root side
	{{{1}, {2, 3}}},                   // inlined pair at the leaf
	{{{1, 2, 3}}},                     // one location with three inlined frames
	{{{1}, {2}}, {{2}}},               // leaf location shared; it is the root of sample 2
	{{{1, 2}, {3}}, {{3}, {1, 2}}},    // inlined location shared at different depths
	{{{1}, {2}, {1}, {3}}},            // recursion
	{{{1}, {2, 3}, {1}}},              // plain root, inlined pair, plain leaf
}

type vC11Prof struct {
	p      *Profile
	frames map[*Function]int // function -> frame id
}

// vC11Build builds the profile of a shape; frame i gets function name names[i].
func vC11Build(shape [][][]int, names map[int]string) (*Profile, map[*Function]int) {
	p := &Profile{SampleType: []*ValueType{{Type: "samples", Unit: "count"}}}
	fns := map[int]*Function{}
	ids := map[*Function]int{}
	locs := map[string]*Location{}
	for si, sample := range shape {
		s := &Sample{Value: []int64{int64(si + 1)}, Label: map[string][]string{"k": {"v" + strconv.Itoa(si)}}}
		for li := len(sample) - 1; li >= 0; li-- { // Location[0] is the leaf
			lf := sample[li]
			key := ""
			for _, f := range lf {
				key += strconv.Itoa(f) + ","
			}
			loc := locs[key]
			if loc == nil {
				loc = &Location{ID: uint64(len(p.Location) + 1), Address: uint64(0x1000 + len(p.Location))}
				for fi := len(lf) - 1; fi >= 0; fi-- { // Line[0] is the innermost (leaf-most) frame
					f := lf[fi]
					fn := fns[f]
					if fn == nil {
						fn = &Function{ID: uint64(len(p.Function) + 1), Name: names[f], SystemName: names[f], Filename: vC11File(f)}
						fns[f] = fn
						ids[fn] = f
						p.Function = append(p.Function, fn)
					}
					loc.Line = append(loc.Line, Line{Function: fn, Line: int64(f)})
				}
				locs[key] = loc
				p.Location = append(p.Location, loc)
			}
			s.Location = append(s.Location, loc)
		}
		p.Sample = append(p.Sample, s)
	}
	return p, ids
}

// vC11Frames flattens a sample root-first into frame ids.
func vC11Frames(s *Sample, ids map[*Function]int) []int {
	var out []int
	for i := len(s.Location) - 1; i >= 0; i-- {
		l := s.Location[i]
		for j := len(l.Line) - 1; j >= 0; j-- {
			out = append(out, ids[l.Line[j].Function])
		}
	}
	return out
}

// vC11Files: per-function source file; by default all functions share f.go.
var vC11Files map[int]string

func vC11File(f int) string {
	if n, ok := vC11Files[f]; ok {
		return n
	}
	return "f.go"
}

// vC11Simple is the simplified form of each pool name, by hand (the frame
// rules match the simplified name: no PPC64 leading dot, no argument list).
var vC11Simple = map[string]string{"a": "a", ".b": "b", "c(int, char*)": "c"}

func vC11Names() map[int]string {
	pool := []string{"a", ".b", "c(int, char*)"}
	names := map[int]string{}
	for f := 1; f <= 3; f++ {
		names[f] = pool[vChoice("name"+strconv.Itoa(f), vBound("c11.names", 2))]
	}
	return names
}

// vDeviation classifies how got differs from want (both are sub-sequences of the original frames).
func vDeviation(got, want []int) string {
	isPrefix := func(a, b []int) bool { // a prefix of b
		if len(a) > len(b) {
			return false
		}
		for i := range a {
			if a[i] != b[i] {
				return false
			}
		}
		return true
	}
	switch {
	case isPrefix(want, got):
		return "kept-more" // pruned less than the rule says
	case isPrefix(got, want):
		return "dropped-more" // pruned more, from the leaf side
	}
	return "holes" // frames are missing from the middle or the root side
}

func vSameInts(a, b []int) bool {
	if len(a) != len(b) {
		return false
	}
	for i := range a {
		if a[i] != b[i] {
			return false
		}
	}
	return true
}

// VerifC11Prune: drop/keep expressions are arbitrary predicates on names.
func VerifC11Prune() {
	shape := vC11Shapes[vChoice("shape", vBound("c11.shapes", len(vC11Shapes)))]
	names := vC11Names()
	p, ids := vC11Build(shape, names)
	drop := vRegexp("drop")
	keep := vRegexp("keep")
	useKeep := vChoice("usekeep", 2) == 1
	match := func(f int) bool {
		n := vC11Simple[names[f]]
		if !drop.MatchString(n) {
			return false
		}
		if useKeep && keep.MatchString(n) {
			return false
		}
		return true
	}
	// reference, from the statement
	var want [][]int
	var before [][]int
	var cuts []int
	for _, s := range p.Sample {
		fs := vC11Frames(s, ids)
		before = append(before, fs)
		cut := -1
		sawUser := false
		for i, f := range fs {
			if match(f) {
				if sawUser {
					cut = i
					break
				}
			} else {
				sawUser = true
			}
		}
		cuts = append(cuts, cut)
		if cut >= 0 {
			want = append(want, fs[:cut])
		} else {
			want = append(want, fs)
		}
	}
	if useKeep {
		p.Prune(drop, keep)
	} else {
		p.Prune(drop, nil)
	}
	vReach("C11.prune:done")
	vAssert(len(p.Sample) == len(shape), "C11.prune.count: number of samples changed")
	for si, s := range p.Sample {
		got := vC11Frames(s, ids)
		vObserve(len(got))
		vAssert(s.Value[0] == int64(si+1) && len(s.Label) == 1 && s.Label["k"][0] == "v"+strconv.Itoa(si), "C11.prune.values: sample values or labels changed")
		vAssert(len(got) > 0, "C11.prune.empty: a sample that had frames became empty")
		if vSameInts(got, want[si]) {
			continue
		}
		// classify the deviation so that distinct defects have distinct fingerprints
		multi := false
		for _, l := range shape[si] {
			if len(l) > 1 {
				multi = true
			}
		}
		dev := vDeviation(got, want[si])
		// where the rule cuts: at the first (root-most) frame of a location, or inside a location
		// ... and whether a frame the rules do not name lies in an earlier location
		// (then even a per-location reading of "the first user frame" is satisfied)
		if c := cuts[si]; c >= 0 {
			pos := 0
			userLocBefore := false
			for _, l := range shape[si] {
				if c > pos && c < pos+len(l) {
					dev = "inner." + dev
				}
				if c >= pos && c < pos+len(l) && !userLocBefore {
					dev = "rootloc." + dev
				}
				for _, f := range l {
					if pos+len(l) <= c || pos > c {
						_ = f
					}
				}
				if pos+len(l) <= c {
					for _, f := range l {
						if !match(f) {
							userLocBefore = true
						}
					}
				}
				pos += len(l)
			}
		}
		switch {
		case len(shape) > 1:
			vAssert(false, "C11.prune.shared-location."+dev+": frames of a location shared between samples were trimmed according to another sample's context")
		case multi:
			vAssert(false, "C11.prune.inline-location."+dev+": a location with inlined frames was trimmed although the sample-level scan decided otherwise")
		default:
			vAssert(false, "C11.prune.frames."+dev+": remaining frames differ from the documented rule")
		}
	}
}

// VerifC11PruneFrom: keep the lowest matching frame, drop only its leaf side.
func VerifC11PruneFrom() {
	shape := vC11Shapes[vChoice("shape", vBound("c11.shapes", len(vC11Shapes)))]
	names := vC11Names()
	p, ids := vC11Build(shape, names)
	rx := vRegexp("from")
	var want [][]int
	for _, s := range p.Sample {
		fs := vC11Frames(s, ids)
		cut := -1
		for i := len(fs) - 1; i >= 0; i-- { // lowest = leaf-most match
			if rx.MatchString(vC11Simple[names[fs[i]]]) {
				cut = i
				break
			}
		}
		if cut >= 0 {
			want = append(want, fs[:cut+1])
		} else {
			want = append(want, fs)
		}
	}
	p.PruneFrom(rx)
	vReach("C11.prunefrom:done")
	vAssert(len(p.Sample) == len(shape), "C11.prunefrom.count: number of samples changed")
	for si, s := range p.Sample {
		got := vC11Frames(s, ids)
		vObserve(len(got))
		vAssert(s.Value[0] == int64(si+1), "C11.prunefrom.values: sample values changed")
		if vSameInts(got, want[si]) {
			continue
		}
		multi := false
		for _, l := range shape[si] {
			if len(l) > 1 {
				multi = true
			}
		}
		dev := vDeviation(got, want[si])
		switch {
		case len(shape) > 1:
			vAssert(false, "C11.prunefrom.shared-location."+dev+": frames of a location shared between samples were trimmed according to another sample's context")
		case multi:
			vAssert(false, "C11.prunefrom.inline-location."+dev+": frames on the root side of the lowest match were dropped from a location with inlined frames")
		default:
			vAssert(false, "C11.prunefrom.frames."+dev+": remaining frames differ from the documented rule")
		}
	}
}

// VerifC11NoExpr: a profile without drop/keep expressions is left untouched.
func VerifC11NoExpr() {
	shape := vC11Shapes[vChoice("shape", len(vC11Shapes))]
	names := vC11Names()
	p, ids := vC11Build(shape, names)
	var before [][]int
	for _, s := range p.Sample {
		before = append(before, vC11Frames(s, ids))
	}
	vFreeze(p, "profile-without-expressions")
	err := p.RemoveUninteresting()
	vUnfreeze()
	vAssert(err == nil, "C11.noexpr.err: RemoveUninteresting failed without expressions")
	for si, s := range p.Sample {
		vAssert(vSameInts(vC11Frames(s, ids), before[si]), "C11.noexpr.changed: frames changed without expressions")
	}
	vObserve(len(p.Sample))
}

func init() { vRegister("VerifC11RemoveUninteresting", VerifC11RemoveUninteresting) }

// VerifC11RemoveUninteresting: a profile's own DropFrames/KeepFrames decide
// what RemoveUninteresting removes, whatever profiles were processed before
// in the same process: two profiles in a row (same or different drop/keep
// expressions, either order), each compared with Prune on its own
// anchored expressions.
func VerifC11RemoveUninteresting() {
	drops := []string{"b|c", "b", "c.*"}
	keeps := []string{"", "c", "b"}
	build := func(drop, keep string) (*Profile, *Profile) {
		mk := func() *Profile {
			var fs []*Function
			var ls []*Location
			for i, n := range []string{"a", "b", "c", "d"} {
				f := &Function{ID: uint64(i + 1), Name: n, SystemName: n, Filename: "f.go"}
				fs = append(fs, f)
				ls = append(ls, &Location{ID: uint64(i + 1), Line: []Line{{Function: f}}})
			}
			return &Profile{SampleType: []*ValueType{{Type: "s", Unit: "c"}}, Function: fs, Location: ls, DropFrames: drop, KeepFrames: keep,
				Sample: []*Sample{{Location: []*Location{ls[3], ls[2], ls[1], ls[0]}, Value: []int64{1}}, {Location: []*Location{ls[3], ls[1], ls[0]}, Value: []int64{2}}, {Location: []*Location{ls[2], ls[0]}, Value: []int64{3}}}}
		}
		return mk(), mk()
	}
	same := func(p, q *Profile) bool {
		if len(p.Sample) != len(q.Sample) {
			return false
		}
		for i := range p.Sample {
			a, b := p.Sample[i].Location, q.Sample[i].Location
			if len(a) != len(b) {
				return false
			}
			for j := range a {
				if a[j].ID != b[j].ID {
					return false
				}
			}
		}
		return true
	}
	d1, k1 := drops[vChoice("drop1", len(drops))], keeps[vChoice("keep1", len(keeps))]
	d2, k2 := drops[vChoice("drop2", len(drops))], keeps[vChoice("keep2", len(keeps))]
	for i, dk := range [][2]string{{d1, k1}, {d2, k2}} {
		p, ref := build(dk[0], dk[1])
		err := p.RemoveUninteresting()
		var keep *regexp.Regexp
		if dk[1] != "" {
			keep = regexp.MustCompile("^(" + dk[1] + ")$")
		}
		ref.Prune(regexp.MustCompile("^("+dk[0]+")$"), keep)
		vAssert(err == nil && same(p, ref), "C11.removeuninteresting."+strconv.Itoa(i)+": the frames removed are not those its own drop_frames/keep_frames select (result depends on profiles processed before)")
	}
	vReach("C11.removeuninteresting:done")
}
