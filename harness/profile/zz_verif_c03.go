//go:build verif

package profile

func init() {
	vRegister("VerifC03Merge", VerifC03Merge)
	vRegister("VerifC03Headers", VerifC03Headers)
	vRegister("VerifC03MergeLabels", VerifC03MergeLabels)
	vRegister("VerifC03Compact", VerifC03Compact)
	vRegister("VerifC03NilPeriodType", VerifC03NilPeriodType)
}

// ---- reference identity of frames (written from the statement) ----

func vMappingSame(a, b *Mapping) bool {
	if a == nil || b == nil {
		return a == nil && b == nil
	}
	ida, idb := a.BuildID, b.BuildID
	if ida == "" {
		ida = a.File
	}
	if idb == "" {
		idb = b.File
	}
	if ida != idb { // concrete strings
		return false
	}
	const pg = 0x1000
	sa := a.Limit - a.Start
	sa = sa + pg - 1
	sa = sa - sa%pg
	sb := b.Limit - b.Start
	sb = sb + pg - 1
	sb = sb - sb%pg
	return vAnd(sa == sb, a.Offset == b.Offset)
}

func vFuncSame(a, b *Function) bool {
	if a == nil || b == nil {
		return a == nil && b == nil
	}
	if a.Name != b.Name || a.SystemName != b.SystemName || a.Filename != b.Filename {
		return false
	}
	return a.StartLine == b.StartLine
}

func vLocSame(a, b *Location) bool {
	if len(a.Line) != len(b.Line) {
		return false
	}
	r := vMappingSame(a.Mapping, b.Mapping)
	ra, rb := a.Address, b.Address
	if a.Mapping != nil {
		ra -= a.Mapping.Start
	}
	if b.Mapping != nil {
		rb -= b.Mapping.Start
	}
	r = vAnd(r, ra == rb)
	r = vAnd(r, a.IsFolded == b.IsFolded)
	for i := range a.Line {
		r = vAnd(r, vFuncSame(a.Line[i].Function, b.Line[i].Function))
		r = vAnd(r, a.Line[i].Line == b.Line[i].Line)
		r = vAnd(r, a.Line[i].Column == b.Line[i].Column)
	}
	return r
}

// vLabelsSame compares the (concrete) label sets of two samples.
func vLabelsSame(a, b *Sample) bool {
	if len(a.Label) != len(b.Label) || len(a.NumLabel) != len(b.NumLabel) {
		return false
	}
	for k, va := range a.Label {
		vb, ok := b.Label[k]
		if !ok || len(va) != len(vb) {
			return false
		}
		for i := range va {
			if va[i] != vb[i] {
				return false
			}
		}
	}
	for k, va := range a.NumLabel {
		vb, ok := b.NumLabel[k]
		if !ok || len(va) != len(vb) {
			return false
		}
		for i := range va {
			if va[i] != vb[i] {
				return false
			}
		}
		ua, ub := a.NumUnit[k], b.NumUnit[k]
		if len(ua) != len(ub) {
			return false
		}
		for i := range ua {
			if ua[i] != ub[i] {
				return false
			}
		}
	}
	return true
}

var vLabelPool = []map[string][]string{
	nil,
	{"a": {"b", "c", "d"}},
	{"a": {"b"}, "c": {"d"}},
	{"a": {"b", "c"}, "d": {}},
}

var vNumLabelPool = []struct {
	v map[string][]int64
	u map[string][]string
}{
	{nil, nil},
	{map[string][]int64{"n": {1, 2}}, nil},
	{map[string][]int64{"n": {1}, "m": {2}}, nil},
	{map[string][]int64{"n": {1, 2}}, map[string][]string{"n": {"kb", "b"}}},
}

func vStackSame(a, b *Sample) bool {
	if len(a.Location) != len(b.Location) || !vLabelsSame(a, b) {
		return false
	}
	r := true
	for i := range a.Location {
		r = vAnd(r, vLocSame(a.Location[i], b.Location[i]))
	}
	return r
}

// VerifC03Merge: two profiles of the small shape; for every input sample the
// merged profile holds exactly one sample with the same frames (by content)
// whose values are the sum over all input samples with the same frames.
func VerifC03Merge() {
	nt := 1
	a := vSmallProfile("a.", -1, nt)
	b := vSmallProfile("b.", -1, nt)
	// structural variants of b relative to a (which strings differ)
	switch vChoice("variant", vBound("c03.variants", 3)) {
	case 1:
		b.Mapping[0].BuildID = "id2"
	case 2:
		b.Function[1].Name = "g1"
	}
	// label sets of the two first samples (same frames are only the same stack with the same labels)
	if vBound("c03.labels", 0) == 1 {
		la, lb := vChoice("labels.a", len(vLabelPool)), vChoice("labels.b", len(vLabelPool))
		a.Sample[0].Label, b.Sample[0].Label = vLabelPool[la], vLabelPool[lb]
		na, nb := vChoice("numlabels.a", len(vNumLabelPool)), vChoice("numlabels.b", len(vNumLabelPool))
		a.Sample[0].NumLabel, a.Sample[0].NumUnit = vNumLabelPool[na].v, vNumLabelPool[na].u
		b.Sample[0].NumLabel, b.Sample[0].NumUnit = vNumLabelPool[nb].v, vNumLabelPool[nb].u
	}
	vAssume(a.CheckValid() == nil)
	vAssume(b.CheckValid() == nil)
	ins := []*Sample{a.Sample[0], a.Sample[1], b.Sample[0], b.Sample[1]}
	for _, s := range ins {
		// keep sums away from wrap-around so that "sum" is the mathematical sum
		vAssume(s.Value[0] > -(1 << 40))
		vAssume(s.Value[0] < 1<<40)
	}
	vFreeze(a, "merge-input")
	vFreeze(b, "merge-input")
	m, err := Merge([]*Profile{a, b})
	vUnfreeze()
	vReach("C03.merge:done")
	if err != nil {
		vAssert(false, "C03.merge.err: merging compatible profiles failed")
		return
	}
	vObserve(len(m.Sample), len(m.Location), len(m.Function), len(m.Mapping))
	vAssert(m.CheckValid() == nil, "C03.merge.valid: merged profile is not valid")
	vAssert(!vShares(m.Sample, a.Sample) && !vShares(m.Location, a.Location), "C03.merge.alias: merged profile shares samples/locations with an input")

	total := int64(0)
	for _, s := range ins {
		total += s.Value[0]
	}
	mtotal := int64(0)
	for _, o := range m.Sample {
		mtotal += o.Value[0]
		vAssert(o.Value[0] != 0, "C03.merge.zero: a sample whose values are all zero survived")
	}
	vAssert(mtotal == total, "C03.merge.total: per-type total is not conserved")

	for _, s := range ins {
		// expected weight of s's stack
		w := int64(0)
		for _, t := range ins {
			w += vIte(vStackSame(s, t), t.Value[0], 0)
		}
		n := int64(0)
		got := int64(0)
		for _, o := range m.Sample {
			same := vStackSame(o, s)
			n += vB2I(same)
			got += vIte(same, o.Value[0], 0)
		}
		vAssert(vImplies(w != 0, n == 1), "C03.merge.stack-present: an input stack with non-zero weight is missing from (or duplicated in) the result")
		vAssert(vImplies(w == 0, n == 0), "C03.merge.stack-zero: a stack whose values sum to zero is still present")
		vAssert(vImplies(n == 1, got == w), "C03.merge.stack-weight: a stack's value is not the sum over the inputs")
	}
	// nothing else is added
	for _, o := range m.Sample {
		n := int64(0)
		for _, s := range ins {
			n += vB2I(vStackSame(o, s))
		}
		vAssert(n >= 1, "C03.merge.added: result holds a stack that no input has")
	}
	// compacting twice equals compacting once
	c1 := m.Compact()
	c2 := c1.Compact()
	vAssert(len(c1.Sample) == len(c2.Sample) && len(c1.Location) == len(c2.Location) && len(c1.Function) == len(c2.Function) && len(c1.Mapping) == len(c2.Mapping), "C03.compact.idem: compacting twice differs from compacting once")
}

// VerifC03MergeLabels: samples on the same frames are the same stack only if
// their string and numeric label sets (values, multiplicity, units) are equal.
func VerifC03MergeLabels() {
	mk := func(tag string) *Profile {
		f := &Function{ID: 1, Name: "f"}
		l := &Location{ID: 1, Address: 0x10, Line: []Line{{Function: f, Line: 1}}}
		la, na := vChoice(tag+"labels", len(vLabelPool)), vChoice(tag+"numlabels", len(vNumLabelPool))
		s := &Sample{Location: []*Location{l}, Value: []int64{vInt64(tag + "v")}, Label: vLabelPool[la], NumLabel: vNumLabelPool[na].v, NumUnit: vNumLabelPool[na].u}
		vAssume(s.Value[0] > 0)
		vAssume(s.Value[0] < 1<<40)
		return &Profile{SampleType: []*ValueType{{Type: "samples", Unit: "count"}}, PeriodType: &ValueType{}, Function: []*Function{f}, Location: []*Location{l}, Sample: []*Sample{s}}
	}
	a, b := mk("a."), mk("b.")
	sa, sb := a.Sample[0], b.Sample[0]
	m, err := Merge([]*Profile{a, b})
	if err != nil {
		vAssert(false, "C03.labels.err: merge failed")
		return
	}
	same := vLabelsSame(sa, sb)
	if same {
		vAssert(len(m.Sample) == 1 && m.Sample[0].Value[0] == sa.Value[0]+sb.Value[0], "C03.labels.split: samples with equal frames and labels were not summed")
	} else {
		vAssert(len(m.Sample) == 2, "C03.labels.collide: samples whose label sets differ were merged into one")
		if len(m.Sample) == 2 {
			vAssert(vLabelsSame(m.Sample[0], sa) && vLabelsSame(m.Sample[1], sb) && m.Sample[0].Value[0] == sa.Value[0] && m.Sample[1].Value[0] == sb.Value[0], "C03.labels.altered: labels or values of distinct samples were altered")
		}
	}
	vObserve(len(m.Sample))
}

// VerifC03Compact: compacting one profile merges its duplicate stacks, drops
// stacks whose values cancel together with everything only they refer to, and
// is idempotent.
func VerifC03Compact() {
	p := vSmallProfile("", -1, 1)
	// a third sample on the same stack as the first
	dup := &Sample{Location: p.Sample[0].Location, Value: []int64{vInt64("dupv")}}
	p.Sample = append(p.Sample, dup)
	for _, s := range p.Sample {
		vAssume(s.Value[0] > -(1 << 40))
		vAssume(s.Value[0] < 1<<40)
	}
	vAssume(p.CheckValid() == nil)
	v0, v1, v2 := p.Sample[0].Value[0], p.Sample[1].Value[0], dup.Value[0]
	c := p.Compact()
	vReach("C03.compact:done")
	vAssert(c.CheckValid() == nil, "C03.compact.valid: compacted profile invalid")
	var total int64
	for _, s := range c.Sample {
		total += s.Value[0]
		vAssert(s.Value[0] != 0, "C03.compact.zero: a stack whose values cancel to zero survives compaction")
	}
	vAssert(total == v0+v1+v2, "C03.compact.total: total not conserved by compaction")
	want := vB2I(v0+v2 != 0) + vB2I(v1 != 0)
	vAssert(int64(len(c.Sample)) == want, "C03.compact.count: compaction did not merge duplicate stacks / drop cancelled ones")
	// only what the remaining samples use is kept
	used := map[*Location]bool{}
	for _, s := range c.Sample {
		for _, l := range s.Location {
			used[l] = true
		}
	}
	vAssert(len(c.Location) == len(used), "C03.compact.gc: locations that no remaining sample uses were kept")
	c2 := c.Compact()
	vAssert(len(c2.Sample) == len(c.Sample) && len(c2.Location) == len(c.Location) && len(c2.Function) == len(c.Function) && len(c2.Mapping) == len(c.Mapping), "C03.compact.idem: compacting twice differs from compacting once")
	vObserve(len(c.Sample), len(c.Location), len(c.Function))
}

// VerifC03Headers: header combination rules and aliasing of header objects.
func VerifC03Headers() {
	k := 2 + vChoice("k", vBound("c03.hdrk", 2)-1)
	var ps []*Profile
	names := []string{"a.", "b.", "c."}
	for i := 0; i < k; i++ {
		p := &Profile{
			SampleType: []*ValueType{{Type: "samples", Unit: "count"}},
			PeriodType: &ValueType{Type: "cpu", Unit: "ns"},
			TimeNanos:  vInt64(names[i] + "time"), DurationNanos: vInt64(names[i] + "dur"), Period: vInt64(names[i] + "period"),
		}
		vAssume(p.TimeNanos >= 0)
		vAssume(p.Period >= 0)
		vAssume(p.DurationNanos >= 0)
		vAssume(p.DurationNanos < 1<<40)
		ps = append(ps, p)
	}
	ps[0].Comments = []string{"x", "y"}
	ps[1].Comments = []string{"y", "z", "x"}
	m, err := Merge(ps)
	if err != nil {
		vAssert(false, "C03.hdr.err: merging compatible profiles failed")
		return
	}
	vObserve(m.TimeNanos, m.DurationNanos, m.Period)
	// reference
	var wantTime, wantDur, wantPeriod int64
	for _, p := range ps {
		wantDur += p.DurationNanos
		wantPeriod = vIte(p.Period > wantPeriod, p.Period, wantPeriod)
		earlier := vAnd(p.TimeNanos != 0, vOr(wantTime == 0, p.TimeNanos < wantTime))
		wantTime = vIte(earlier, p.TimeNanos, wantTime)
	}
	vAssert(m.Period == wantPeriod, "C03.hdr.period: period is not the maximum")
	vAssert(m.DurationNanos == wantDur, "C03.hdr.duration: duration is not the sum")
	vAssert(m.TimeNanos == wantTime, "C03.hdr.time: collection time is not the earliest non-zero one")
	vAssert(len(m.Comments) == 3 && m.Comments[0] == "x" && m.Comments[1] == "y" && m.Comments[2] == "z", "C03.hdr.comments: comments are not the de-duplicated union in order")
	vAssert(m.SampleType[0] != ps[0].SampleType[0], "C03.hdr.alias-sampletype: merged profile aliases the first input's sample type object")
	vAssert(m.PeriodType != ps[0].PeriodType, "C03.hdr.alias-periodtype: merged profile aliases the first input's period type object")
}

// VerifC03NilPeriodType: profiles built in memory may leave PeriodType nil
// (the parser treats nil and the empty value type alike); merging them must
// not crash.
func VerifC03NilPeriodType() {
	a := &Profile{SampleType: []*ValueType{{Type: "samples", Unit: "count"}}, Period: vInt64("pa")}
	b := &Profile{SampleType: []*ValueType{{Type: "samples", Unit: "count"}}, Period: vInt64("pb")}
	if vChoice("bHasPeriodType", 2) == 1 {
		b.PeriodType = &ValueType{}
	}
	vAssume(a.CheckValid() == nil)
	vAssume(b.CheckValid() == nil)
	m, err := Merge([]*Profile{a, b})
	vObserve(err == nil)
	vAssert(err == nil, "C03.nilperiod.err: profiles without a period type are reported incompatible")
	if err == nil {
		vAssert(m.CheckValid() == nil, "C03.nilperiod.valid: merged profile invalid")
	}
}
