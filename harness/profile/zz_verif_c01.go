//go:build verif

package profile

import (
	"bytes"
	"strconv"
)

func init() {
	vRegister("VerifC01Varint", VerifC01Varint)
	vRegister("VerifC01Packed", VerifC01Packed)
	vRegister("VerifC01RoundTrip", VerifC01RoundTrip)
	vRegister("VerifC01Strings", VerifC01Strings)
}

// VerifC01Varint: decodeVarint(encodeVarint(x)) == x and consumes exactly the
// encoding, for every 64-bit x (one path per encoded length).
func VerifC01Varint() {
	x := vUint64("x")
	var b buffer
	encodeVarint(&b, x)
	tail := []byte{0x80, 0x7f}
	data := append(append([]byte{}, b.data...), tail...)
	got, rest, err := decodeVarint(data)
	vObserve(len(b.data), got)
	vAssert(err == nil, "C01.varint.err: decoding an encoded varint failed")
	vAssert(got == x, "C01.varint.value: varint round trip changed the value")
	vAssert(len(rest) == len(tail), "C01.varint.len: decoder consumed a different number of bytes than the encoder produced")
}

// VerifC01Packed: repeated integer fields survive encode/decode for 0..4
// elements (3 is the switch to packed encoding).
func VerifC01Packed() {
	n := vChoice("n", vBound("c01.packed.n", 4)+1)
	cls := vChoice("cls", 3)
	xs := make([]int64, n)
	for i := range xs {
		xs[i] = vI("x"+strconv.Itoa(i), cls)
	}
	s := &Sample{Value: xs}
	var b buffer
	s.encode(&b)
	out := &Sample{}
	var b2 buffer
	b2.typ = 2
	b2.data = b.data
	err := decodeMessage(&b2, out)
	vAssert(err == nil, "C01.packed.err: decoding an encoded sample failed")
	vAssert(len(out.Value) == n, "C01.packed.len: number of values changed")
	for i := 0; i < n && i < len(out.Value); i++ {
		vAssert(out.Value[i] == xs[i], "C01.packed.value: a repeated value changed")
	}
	vObserve(len(b.data))
}

func vSameValueType(a, b *ValueType) bool {
	if a == nil || b == nil {
		return a == nil && b == nil
	}
	return a.Type == b.Type && a.Unit == b.Unit
}

// VerifC01RoundTrip: memory -> bytes -> memory keeps every persisted field,
// and the parsed profile re-serializes to identical bytes.
func VerifC01RoundTrip() {
	cls := vChoice("cls", 3)
	ntypes := 1 + vChoice("ntypes", vBound("c01.maxtypes", 2))
	p := vSmallProfile("", cls, ntypes)
	if vChoice("unnamedtype", 2) == 1 {
		// a value column without type and unit strings (an all-default nested message)
		p.SampleType[ntypes-1].Type, p.SampleType[ntypes-1].Unit = "", ""
	}
	// labels: a string label with two values (one empty: dropped by proto3), a
	// numeric label with/without units
	p.Sample[0].Label = map[string][]string{"k": {"v1", "v2"}, "e": {""}}
	nl := vI("numlabel", cls)
	p.Sample[0].NumLabel = map[string][]int64{"bytes": {nl, 0}}
	switch vChoice("units", 3) {
	case 1:
		p.Sample[0].NumUnit = map[string][]string{"bytes": {"kb", ""}}
	case 2:
		p.Sample[0].NumUnit = map[string][]string{"bytes": {"", "b"}}
	}
	p.TimeNanos = vI("time", cls)
	p.DurationNanos = vI("dur", cls)
	p.Period = vI("period", cls)
	p.PeriodType = &ValueType{Type: "cpu", Unit: "ns"}
	p.Comments = []string{"c1", "", "c1"}
	p.DropFrames = "drop"
	p.DefaultSampleType = "samples"
	p.DocURL = "http://x"
	vAssume(p.CheckValid() == nil)

	var buf bytes.Buffer
	if err := p.WriteUncompressed(&buf); err != nil {
		vAssert(false, "C01.rt.write: writing a valid profile failed")
		return
	}
	data := buf.Bytes()
	// serializing the same in-memory profile again (what Copy and repeated writes do) gives the same bytes
	var again bytes.Buffer
	p.WriteUncompressed(&again)
	vAssert(bytes.Equal(data, again.Bytes()), "C01.rt.rewrite: writing the same profile twice gives different bytes")
	q, err := ParseUncompressed(data)
	vReach("C01.rt:parsed")
	if err != nil {
		vAssert(false, "C01.rt.parse: parsing the bytes just written failed")
		return
	}
	vObserve(len(data), q.TimeNanos, q.Period, len(q.Sample), len(q.Location))
	vAssert(q.CheckValid() == nil, "C01.rt.valid: parsed profile is not valid")
	vAssert(len(q.SampleType) == ntypes, "C01.rt.types: number of sample types changed")
	for i := 0; i < ntypes && i < len(q.SampleType); i++ {
		vAssert(vSameValueType(q.SampleType[i], p.SampleType[i]), "C01.rt.sampletype: sample type changed")
	}
	vAssert(vSameValueType(q.PeriodType, p.PeriodType), "C01.rt.periodtype: period type changed")
	vAssert(q.TimeNanos == p.TimeNanos, "C01.rt.time: TimeNanos changed")
	vAssert(q.DurationNanos == p.DurationNanos, "C01.rt.duration: DurationNanos changed")
	vAssert(q.Period == p.Period, "C01.rt.period: Period changed")
	vAssert(q.DropFrames == p.DropFrames && q.KeepFrames == p.KeepFrames && q.DefaultSampleType == p.DefaultSampleType && q.DocURL == p.DocURL, "C01.rt.header-strings: a header string changed")
	vAssert(len(q.Comments) == 3 && q.Comments[0] == "c1" && q.Comments[1] == "" && q.Comments[2] == "c1", "C01.rt.comments: comments changed")
	// mappings
	if len(q.Mapping) != 1 || len(q.Function) != 2 || len(q.Location) != 2 || len(q.Sample) != 2 {
		vAssert(false, "C01.rt.counts: number of mappings/functions/locations/samples changed")
		return
	}
	m, qm := p.Mapping[0], q.Mapping[0]
	vAssert(qm.ID == m.ID, "C01.rt.mapping.id: mapping id changed")
	vAssert(qm.Start == m.Start, "C01.rt.mapping.start: mapping start changed")
	vAssert(qm.Limit == m.Limit, "C01.rt.mapping.limit: mapping limit changed")
	vAssert(qm.Offset == m.Offset, "C01.rt.mapping.offset: mapping offset changed")
	vAssert(qm.File == m.File && qm.BuildID == m.BuildID, "C01.rt.mapping.strings: mapping file/build id changed")
	vAssert(qm.HasFunctions == m.HasFunctions, "C01.rt.mapping.flags: has-functions flag changed")
	vAssert(qm.HasLineNumbers == m.HasLineNumbers, "C01.rt.mapping.flags2: has-line-numbers flag changed")
	for i, f := range p.Function {
		qf := q.Function[i]
		vAssert(qf.ID == f.ID, "C01.rt.function.id: function id changed")
		vAssert(qf.StartLine == f.StartLine, "C01.rt.function.startline: start line changed")
		vAssert(qf.Name == f.Name && qf.SystemName == f.SystemName && qf.Filename == f.Filename, "C01.rt.function.strings: function strings changed")
	}
	for i, l := range p.Location {
		ql := q.Location[i]
		vAssert(ql.ID == l.ID, "C01.rt.location.id: location id changed")
		vAssert(ql.Address == l.Address, "C01.rt.location.addr: address changed")
		vAssert(ql.IsFolded == l.IsFolded, "C01.rt.location.folded: folded flag changed")
		vAssert(ql.Mapping == qm, "C01.rt.location.mapping: location no longer refers to its mapping")
		if len(ql.Line) != len(l.Line) {
			vAssert(false, "C01.rt.location.lines: number of inline lines changed")
			return
		}
		for j, ln := range l.Line {
			qn := ql.Line[j]
			vAssert(qn.Line == ln.Line, "C01.rt.line.line: line number changed")
			vAssert(qn.Column == ln.Column, "C01.rt.line.column: column changed")
			fi := 0
			if ln.Function == p.Function[1] {
				fi = 1
			}
			vAssert(qn.Function == q.Function[fi], "C01.rt.line.function: line refers to a different function")
		}
	}
	for i, s := range p.Sample {
		qs := q.Sample[i]
		if len(qs.Value) != len(s.Value) || len(qs.Location) != len(s.Location) {
			vAssert(false, "C01.rt.sample.shape: sample value/stack length changed")
			return
		}
		for j := range s.Value {
			vAssert(qs.Value[j] == s.Value[j], "C01.rt.sample.value: sample value changed")
		}
		for j := range s.Location {
			li := 0
			if s.Location[j] == p.Location[1] {
				li = 1
			}
			vAssert(qs.Location[j] == q.Location[li], "C01.rt.sample.stack: stack frame refers to a different location")
		}
	}
	// labels of sample 0 after the proto3 normalisation
	qs := q.Sample[0]
	vAssert(len(qs.Label) == 1 && len(qs.Label["k"]) == 2 && qs.Label["k"][0] == "v1" && qs.Label["k"][1] == "v2", "C01.rt.label: string labels changed beyond dropping empty values")
	nv := qs.NumLabel["bytes"]
	nu := qs.NumUnit["bytes"]
	switch vChoice("units", 3) {
	case 0: // no units: the (0, no unit) value is dropped
		vAssert(len(nv) == 1 && nv[0] == nl, "C01.rt.numlabel: numeric label values changed")
	case 1: // {"kb",""}: second value 0 without unit is dropped
		vAssert(len(nv) == 1 && nv[0] == nl && len(nu) == 1 && nu[0] == "kb", "C01.rt.numlabel-units1: numeric label with units changed")
	case 2: // {"","b"}: both kept, units padded
		vAssert(len(nv) == 2 && nv[0] == nl && nv[1] == 0 && len(nu) == 2 && nu[0] == "" && nu[1] == "b", "C01.rt.numlabel-units2: numeric label with mixed units changed")
	}
	vAssert(len(q.Sample[1].Label) == 0 && len(q.Sample[1].NumLabel) == 0, "C01.rt.nolabel: labels appeared on a sample without labels")

	// anything the parser returns re-serializes to identical bytes after one more round
	var buf2 bytes.Buffer
	q.WriteUncompressed(&buf2)
	q2, err := ParseUncompressed(buf2.Bytes())
	if err != nil {
		vAssert(false, "C01.rt.reparse: re-parsing a re-serialized profile failed")
		return
	}
	var buf3 bytes.Buffer
	q2.WriteUncompressed(&buf3)
	vAssert(bytes.Equal(buf2.Bytes(), buf3.Bytes()), "C01.rt.bytes: re-serialization of a parsed profile is not byte-identical")
}

// vSymStr is an arbitrary string of one of four shapes: empty, one or two
// arbitrary bytes (non-UTF8 included), or "http://" followed by an arbitrary byte.
func vSymStr(tag string) string {
	b0, b1 := vByte(tag+"b0"), vByte(tag+"b1")
	switch vChoice(tag+"shape", 4) {
	case 0:
		return string([]byte{b0})
	case 1:
		return string([]byte{b0, b1})
	case 2:
		return "http://" + string([]byte{b0})
	}
	return ""
}

// VerifC01Strings: every string-valued field of a profile survives
// write-then-parse for arbitrary contents. One field at a time carries the
// arbitrary string; the others keep distinct constants.
func VerifC01Strings() {
	m := &Mapping{ID: 1, Start: 0x1000, Limit: 0x2000, File: "bin", BuildID: "id"}
	f := &Function{ID: 1, Name: "fn", SystemName: "sys", Filename: "file.go", StartLine: 3}
	l := &Location{ID: 1, Mapping: m, Address: 0x1100, Line: []Line{{Function: f, Line: 5}}}
	s0 := &Sample{Location: []*Location{l}, Value: []int64{7},
		Label:    map[string][]string{"key": {"val"}},
		NumLabel: map[string][]int64{"num": {9}}, NumUnit: map[string][]string{"num": {"unit"}}}
	p := &Profile{
		SampleType: []*ValueType{{Type: "st", Unit: "su"}}, PeriodType: &ValueType{Type: "pt", Unit: "pu"}, Period: 1,
		Mapping: []*Mapping{m}, Function: []*Function{f}, Location: []*Location{l}, Sample: []*Sample{s0},
		Comments: []string{"comment"}, DropFrames: "drop", KeepFrames: "keep", DefaultSampleType: "st", DocURL: "https://doc",
	}
	x := vSymStr("x")
	which := vChoice("field", vBound("c01.fields", 19))
	switch which {
	case 0:
		m.File = x
	case 1:
		m.BuildID = x
	case 2:
		// (KernelRelocationSymbol is derived from File on load, not serialized)
		m.File = "[kernel.kallsyms]" + x
	case 3:
		f.Name = x
	case 4:
		f.SystemName = x
	case 5:
		f.Filename = x
	case 6:
		p.SampleType[0].Type = x
		p.DefaultSampleType = ""
	case 7:
		p.SampleType[0].Unit = x
	case 8:
		p.PeriodType.Type = x
	case 9:
		p.PeriodType.Unit = x
	case 10:
		s0.Label = map[string][]string{x: {"val"}}
	case 11:
		s0.Label = map[string][]string{"key": {x}}
	case 12:
		s0.NumLabel = map[string][]int64{x: {9}}
		s0.NumUnit = map[string][]string{x: {"unit"}}
	case 13:
		s0.NumUnit = map[string][]string{"num": {x}}
	case 14:
		p.Comments = []string{x, "comment"}
	case 15:
		p.DropFrames = x
	case 16:
		p.KeepFrames = x
	case 17:
		p.DefaultSampleType = x
	case 18:
		p.DocURL = x
	}
	if p.CheckValid() != nil {
		return
	}
	var buf bytes.Buffer
	if err := p.WriteUncompressed(&buf); err != nil {
		vAssert(false, "C01.str.write: writing a valid profile failed")
		return
	}
	q, err := ParseUncompressed(buf.Bytes())
	vReach("C01.str:parsed")
	if err != nil {
		vAssert(false, "C01.str.parse: parsing the bytes just written failed")
		return
	}
	if len(q.Mapping) != 1 || len(q.Function) != 1 || len(q.Location) != 1 || len(q.Sample) != 1 || len(q.SampleType) != 1 || q.PeriodType == nil {
		vAssert(false, "C01.str.counts: number of mappings/functions/locations/samples/types changed")
		return
	}
	qm, qf, qs := q.Mapping[0], q.Function[0], q.Sample[0]
	ok := vAnd(vStrEq(qm.File, m.File), vStrEq(qm.BuildID, m.BuildID))
	vAssert(ok, "C01.str.mapping: a mapping string changed")
	ok = vAnd(vStrEq(qf.Name, f.Name), vAnd(vStrEq(qf.SystemName, f.SystemName), vStrEq(qf.Filename, f.Filename)))
	vAssert(ok, "C01.str.function: a function string changed")
	ok = vAnd(vAnd(vStrEq(q.SampleType[0].Type, p.SampleType[0].Type), vStrEq(q.SampleType[0].Unit, p.SampleType[0].Unit)),
		vAnd(vStrEq(q.PeriodType.Type, p.PeriodType.Type), vStrEq(q.PeriodType.Unit, p.PeriodType.Unit)))
	vAssert(ok, "C01.str.valuetype: a sample/period type string changed")
	ok = vAnd(vAnd(vStrEq(q.DropFrames, p.DropFrames), vStrEq(q.KeepFrames, p.KeepFrames)), vAnd(vStrEq(q.DefaultSampleType, p.DefaultSampleType), vStrEq(q.DocURL, p.DocURL)))
	vAssert(ok, "C01.str.header: a header string (drop/keep frames, default sample type, doc URL) changed")
	if len(q.Comments) != len(p.Comments) {
		vAssert(false, "C01.str.comments: number of comments changed")
	} else {
		for i := range p.Comments {
			vAssert(vStrEq(q.Comments[i], p.Comments[i]), "C01.str.comments: a comment changed")
		}
	}
	// labels: the one string label, unless its value is empty (proto3)
	for k, vs := range s0.Label {
		got := qs.Label[k]
		if vStrEq(vs[0], "") {
			vAssert(len(got) == 0, "C01.str.label-empty: an empty label value was not dropped")
		} else {
			ok := len(got) == 1
			if ok {
				ok = vStrEq(got[0], vs[0])
			}
			vAssert(ok, "C01.str.label: a string label changed")
		}
	}
	for k, vs := range s0.NumLabel {
		got, gu := qs.NumLabel[k], qs.NumUnit[k]
		unit := "" // no unit and an empty unit are the same thing
		if len(gu) == 1 {
			unit = gu[0]
		}
		ok := len(got) == 1 && len(gu) <= 1
		if ok {
			ok = vAnd(got[0] == vs[0], vStrEq(unit, s0.NumUnit[k][0]))
		}
		vAssert(ok, "C01.str.numlabel: a numeric label or its unit changed")
	}
	// what the parser returned survives write-then-parse and re-serializes to identical bytes
	var b2, b3 bytes.Buffer
	q.WriteUncompressed(&b2)
	q2, err2 := ParseUncompressed(b2.Bytes())
	if err2 != nil {
		vAssert(false, "C01.str.reparse: the re-serialized profile does not parse")
		return
	}
	q2.WriteUncompressed(&b3)
	vAssert(vStrEq(string(b3.Bytes()), string(b2.Bytes())), "C01.str.reserialize: the parsed profile does not re-serialize to identical bytes")
	vObserve(len(buf.Bytes()))
}

func init() { vRegister("VerifC01NumLabels", VerifC01NumLabels) }

// VerifC01NumLabels: a numeric label with 1-3 values, each zero or not and
// each with or without a unit, survives write-then-parse: only a zero value
// without unit is dropped (proto3 cannot represent it), the units stay
// aligned with their values, and what was parsed can be written again to the
// same bytes.
func VerifC01NumLabels() {
	k := 1 + vChoice("k", vBound("c01.numvalues", 3))
	units := []string{"", "kb", "b"}
	var vals []int64
	var us []string
	for i := 0; i < k; i++ {
		t := strconv.Itoa(i)
		v := vInt64("v" + t)
		vAssume(v >= 0)
		vAssume(v <= 127)
		vals = append(vals, v)
		us = append(us, units[vChoice("u"+t, 3)])
	}
	m := &Mapping{ID: 1, Start: 0x1000, Limit: 0x2000, File: "bin"}
	f := &Function{ID: 1, Name: "fn", SystemName: "fn", Filename: "f.go"}
	l := &Location{ID: 1, Mapping: m, Address: 0x1100, Line: []Line{{Function: f, Line: 5}}}
	s0 := &Sample{Location: []*Location{l}, Value: []int64{7}, NumLabel: map[string][]int64{"bytes": vals}}
	hasUnit := false
	for _, u := range us {
		if u != "" {
			hasUnit = true
		}
	}
	if hasUnit || vChoice("explicit-empty-units", 2) == 1 {
		s0.NumUnit = map[string][]string{"bytes": us}
	}
	p := &Profile{SampleType: []*ValueType{{Type: "st", Unit: "su"}}, PeriodType: &ValueType{Type: "pt", Unit: "pu"}, Period: 1,
		Mapping: []*Mapping{m}, Function: []*Function{f}, Location: []*Location{l}, Sample: []*Sample{s0}}
	var buf bytes.Buffer
	if err := p.WriteUncompressed(&buf); err != nil {
		vAssert(false, "C01.num.write: writing a valid profile failed")
		return
	}
	q, err := ParseUncompressed(buf.Bytes())
	vReach("C01.num:parsed")
	if err != nil || len(q.Sample) != 1 {
		vAssert(false, "C01.num.parse: parsing the bytes just written failed")
		return
	}
	// expected pairs: all but (0, "")
	type pair struct {
		v int64
		u string
	}
	var want []pair
	for i := range vals {
		if vals[i] == 0 && us[i] == "" {
			continue
		}
		want = append(want, pair{vals[i], us[i]})
	}
	gv, gu := q.Sample[0].NumLabel["bytes"], q.Sample[0].NumUnit["bytes"]
	if len(gv) != len(want) {
		vAssert(false, "C01.num.values: the numeric label's values changed (only zero values without unit may be dropped)")
		return
	}
	if len(gu) != 0 && len(gu) != len(gv) {
		vAssert(false, "C01.num.aligned: the parsed profile has a different number of units than values for a numeric label")
		return
	}
	for i, w := range want {
		u := ""
		if len(gu) != 0 {
			u = gu[i]
		}
		vAssert(vAnd(gv[i] == w.v, u == w.u), "C01.num.pair: a numeric label value or its unit changed")
	}
	// what the parser returned can be copied and written again, to the same bytes
	var b2, b3 bytes.Buffer
	if err := q.WriteUncompressed(&b2); err != nil {
		vAssert(false, "C01.num.rewrite: the parsed profile cannot be written")
		return
	}
	q2, err := ParseUncompressed(b2.Bytes())
	if err != nil {
		vAssert(false, "C01.num.reparse: the re-serialized profile does not parse")
		return
	}
	q2.WriteUncompressed(&b3)
	vAssert(vStrEq(string(b2.Bytes()), string(b3.Bytes())), "C01.num.reserialize: the parsed profile does not re-serialize to identical bytes")
	c := q.Copy()
	vAssert(c != nil && c.CheckValid() == nil, "C01.num.copy: the parsed profile cannot be copied")
	// nothing of an earlier serialization may stick: remove the labels of the
	// (already written) profile and of the (already parsed) one, write again
	for _, pr := range []*Profile{p, q} {
		pr.Sample[0].Label, pr.Sample[0].NumLabel, pr.Sample[0].NumUnit = nil, nil, nil
		var b4 bytes.Buffer
		pr.WriteUncompressed(&b4)
		r, err := ParseUncompressed(b4.Bytes())
		ok := err == nil
		if ok {
			ok = len(r.Sample) == 1 && len(r.Sample[0].Label) == 0 && len(r.Sample[0].NumLabel) == 0 && len(r.Sample[0].NumUnit) == 0
		}
		vAssert(ok, "C01.num.stale: labels removed from a profile that had been serialized before are written out again")
	}
	vObserve(len(gv), len(gu))
}

func init() { vRegister("VerifC01PackedLengths", VerifC01PackedLengths) }

// VerifC01PackedLengths: packed repeated fields whose payload length sits at
// the varint size boundaries (126..130 and 16382..16386 bytes: one-, two- and
// three-byte length prefixes) round-trip: a sample with that many one-byte
// values / location ids, the first and last of them symbolic.
func VerifC01PackedLengths() {
	lens := []int{126, 127, 128, 129, 130, 16383, 16384}
	n := lens[vChoice("len", vBound("c01.packedlens", 5))]
	first, last := vInt64("first"), vInt64("last")
	for _, v := range []int64{first, last} {
		vAssume(v >= 0)
		vAssume(v <= 127)
	}
	xs := make([]int64, n)
	ids := make([]uint64, n)
	for i := range xs {
		xs[i] = int64(i % 100)
		ids[i] = uint64(1 + i%100)
	}
	xs[0], xs[n-1] = first, last
	s := &Sample{Value: xs, locationIDX: ids}
	var b buffer
	s.encode(&b)
	out := &Sample{}
	var b2 buffer
	b2.typ = 2
	b2.data = b.data
	err := decodeMessage(&b2, out)
	vReach("C01.packedlen:decoded")
	if err != nil || len(out.Value) != n || len(out.locationIDX) != n {
		vAssert(false, "C01.packedlen.len: a packed field whose payload length is at a varint boundary does not decode to the same number of elements")
		return
	}
	ok := vAnd(out.Value[0] == first, out.Value[n-1] == last)
	for i := 1; i < n-1; i++ {
		if out.Value[i] != xs[i] || out.locationIDX[i] != ids[i] {
			ok = false
		}
	}
	vAssert(ok, "C01.packedlen.value: an element of a long packed field changed")
	vObserve(len(b.data))
}
