//go:build verif

package profile

import (
	"bytes"
	"strconv"
)

func init() {
	vRegister("VerifC01Varint", VerifC01Varint)
	vRegister("VerifC01Packed", VerifC01Packed)
	vRegister("VerifC01RoundTrip", VerifC01RoundTrip)
}

// VerifC01Varint: decodeVarint(encodeVarint(x)) == x and consumes exactly the
// encoding, for every 64-bit x (one path per encoded length).
func VerifC01Varint() {
	x := vUint64("x")
	var b buffer
	encodeVarint(&b, x)
	tail := []byte{0x80, 0x7f}
	data := append(append([]byte{}, b.data...), tail...)
	got, rest, err := decodeVarint(data)
	vObserve(len(b.data), got)
	vAssert(err == nil, "C01.varint.err: decoding an encoded varint failed")
	vAssert(got == x, "C01.varint.value: varint round trip changed the value")
	vAssert(len(rest) == len(tail), "C01.varint.len: decoder consumed a different number of bytes than the encoder produced")
}

// VerifC01Packed: repeated integer fields survive encode/decode for 0..4
// elements (3 is the switch to packed encoding).
func VerifC01Packed() {
	n := vChoice("n", vBound("c01.packed.n", 4)+1)
	cls := vChoice("cls", 3)
	xs := make([]int64, n)
	for i := range xs {
		xs[i] = vI("x"+strconv.Itoa(i), cls)
	}
	s := &Sample{Value: xs}
	var b buffer
	s.encode(&b)
	out := &Sample{}
	var b2 buffer
	b2.typ = 2
	b2.data = b.data
	err := decodeMessage(&b2, out)
	vAssert(err == nil, "C01.packed.err: decoding an encoded sample failed")
	vAssert(len(out.Value) == n, "C01.packed.len: number of values changed")
	for i := 0; i < n && i < len(out.Value); i++ {
		vAssert(out.Value[i] == xs[i], "C01.packed.value: a repeated value changed")
	}
	vObserve(len(b.data))
}

func vSameValueType(a, b *ValueType) bool {
	if a == nil || b == nil {
		return a == nil && b == nil
	}
	return a.Type == b.Type && a.Unit == b.Unit
}

// VerifC01RoundTrip: memory -> bytes -> memory keeps every persisted field,
// and the parsed profile re-serializes to identical bytes.
func VerifC01RoundTrip() {
	cls := vChoice("cls", 3)
	ntypes := 1 + vChoice("ntypes", vBound("c01.maxtypes", 2))
	p := vSmallProfile("", cls, ntypes)
	if vChoice("unnamedtype", 2) == 1 {
		// a value column without type and unit strings (an all-default nested message)
		p.SampleType[ntypes-1].Type, p.SampleType[ntypes-1].Unit = "", ""
	}
	// labels: a string label with two values (one empty: dropped by proto3), a
	// numeric label with/without units
	p.Sample[0].Label = map[string][]string{"k": {"v1", "v2"}, "e": {""}}
	nl := vI("numlabel", cls)
	p.Sample[0].NumLabel = map[string][]int64{"bytes": {nl, 0}}
	switch vChoice("units", 3) {
	case 1:
		p.Sample[0].NumUnit = map[string][]string{"bytes": {"kb", ""}}
	case 2:
		p.Sample[0].NumUnit = map[string][]string{"bytes": {"", "b"}}
	}
	p.TimeNanos = vI("time", cls)
	p.DurationNanos = vI("dur", cls)
	p.Period = vI("period", cls)
	p.PeriodType = &ValueType{Type: "cpu", Unit: "ns"}
	p.Comments = []string{"c1", "", "c1"}
	p.DropFrames = "drop"
	p.DefaultSampleType = "samples"
	p.DocURL = "http://x"
	vAssume(p.CheckValid() == nil)

	var buf bytes.Buffer
	if err := p.WriteUncompressed(&buf); err != nil {
		vAssert(false, "C01.rt.write: writing a valid profile failed")
		return
	}
	data := buf.Bytes()
	// serializing the same in-memory profile again (what Copy and repeated writes do) gives the same bytes
	var again bytes.Buffer
	p.WriteUncompressed(&again)
	vAssert(bytes.Equal(data, again.Bytes()), "C01.rt.rewrite: writing the same profile twice gives different bytes")
	q, err := ParseUncompressed(data)
	vReach("C01.rt:parsed")
	if err != nil {
		vAssert(false, "C01.rt.parse: parsing the bytes just written failed")
		return
	}
	vObserve(len(data), q.TimeNanos, q.Period, len(q.Sample), len(q.Location))
	vAssert(q.CheckValid() == nil, "C01.rt.valid: parsed profile is not valid")
	vAssert(len(q.SampleType) == ntypes, "C01.rt.types: number of sample types changed")
	for i := 0; i < ntypes && i < len(q.SampleType); i++ {
		vAssert(vSameValueType(q.SampleType[i], p.SampleType[i]), "C01.rt.sampletype: sample type changed")
	}
	vAssert(vSameValueType(q.PeriodType, p.PeriodType), "C01.rt.periodtype: period type changed")
	vAssert(q.TimeNanos == p.TimeNanos, "C01.rt.time: TimeNanos changed")
	vAssert(q.DurationNanos == p.DurationNanos, "C01.rt.duration: DurationNanos changed")
	vAssert(q.Period == p.Period, "C01.rt.period: Period changed")
	vAssert(q.DropFrames == p.DropFrames && q.KeepFrames == p.KeepFrames && q.DefaultSampleType == p.DefaultSampleType && q.DocURL == p.DocURL, "C01.rt.header-strings: a header string changed")
	vAssert(len(q.Comments) == 3 && q.Comments[0] == "c1" && q.Comments[1] == "" && q.Comments[2] == "c1", "C01.rt.comments: comments changed")
	// mappings
	if len(q.Mapping) != 1 || len(q.Function) != 2 || len(q.Location) != 2 || len(q.Sample) != 2 {
		vAssert(false, "C01.rt.counts: number of mappings/functions/locations/samples changed")
		return
	}
	m, qm := p.Mapping[0], q.Mapping[0]
	vAssert(qm.ID == m.ID, "C01.rt.mapping.id: mapping id changed")
	vAssert(qm.Start == m.Start, "C01.rt.mapping.start: mapping start changed")
	vAssert(qm.Limit == m.Limit, "C01.rt.mapping.limit: mapping limit changed")
	vAssert(qm.Offset == m.Offset, "C01.rt.mapping.offset: mapping offset changed")
	vAssert(qm.File == m.File && qm.BuildID == m.BuildID, "C01.rt.mapping.strings: mapping file/build id changed")
	vAssert(qm.HasFunctions == m.HasFunctions, "C01.rt.mapping.flags: has-functions flag changed")
	vAssert(qm.HasLineNumbers == m.HasLineNumbers, "C01.rt.mapping.flags2: has-line-numbers flag changed")
	for i, f := range p.Function {
		qf := q.Function[i]
		vAssert(qf.ID == f.ID, "C01.rt.function.id: function id changed")
		vAssert(qf.StartLine == f.StartLine, "C01.rt.function.startline: start line changed")
		vAssert(qf.Name == f.Name && qf.SystemName == f.SystemName && qf.Filename == f.Filename, "C01.rt.function.strings: function strings changed")
	}
	for i, l := range p.Location {
		ql := q.Location[i]
		vAssert(ql.ID == l.ID, "C01.rt.location.id: location id changed")
		vAssert(ql.Address == l.Address, "C01.rt.location.addr: address changed")
		vAssert(ql.IsFolded == l.IsFolded, "C01.rt.location.folded: folded flag changed")
		vAssert(ql.Mapping == qm, "C01.rt.location.mapping: location no longer refers to its mapping")
		if len(ql.Line) != len(l.Line) {
			vAssert(false, "C01.rt.location.lines: number of inline lines changed")
			return
		}
		for j, ln := range l.Line {
			qn := ql.Line[j]
			vAssert(qn.Line == ln.Line, "C01.rt.line.line: line number changed")
			vAssert(qn.Column == ln.Column, "C01.rt.line.column: column changed")
			fi := 0
			if ln.Function == p.Function[1] {
				fi = 1
			}
			vAssert(qn.Function == q.Function[fi], "C01.rt.line.function: line refers to a different function")
		}
	}
	for i, s := range p.Sample {
		qs := q.Sample[i]
		if len(qs.Value) != len(s.Value) || len(qs.Location) != len(s.Location) {
			vAssert(false, "C01.rt.sample.shape: sample value/stack length changed")
			return
		}
		for j := range s.Value {
			vAssert(qs.Value[j] == s.Value[j], "C01.rt.sample.value: sample value changed")
		}
		for j := range s.Location {
			li := 0
			if s.Location[j] == p.Location[1] {
				li = 1
			}
			vAssert(qs.Location[j] == q.Location[li], "C01.rt.sample.stack: stack frame refers to a different location")
		}
	}
	// labels of sample 0 after the proto3 normalisation
	qs := q.Sample[0]
	vAssert(len(qs.Label) == 1 && len(qs.Label["k"]) == 2 && qs.Label["k"][0] == "v1" && qs.Label["k"][1] == "v2", "C01.rt.label: string labels changed beyond dropping empty values")
	nv := qs.NumLabel["bytes"]
	nu := qs.NumUnit["bytes"]
	switch vChoice("units", 3) {
	case 0: // no units: the (0, no unit) value is dropped
		vAssert(len(nv) == 1 && nv[0] == nl, "C01.rt.numlabel: numeric label values changed")
	case 1: // {"kb",""}: second value 0 without unit is dropped
		vAssert(len(nv) == 1 && nv[0] == nl && len(nu) == 1 && nu[0] == "kb", "C01.rt.numlabel-units1: numeric label with units changed")
	case 2: // {"","b"}: both kept, units padded
		vAssert(len(nv) == 2 && nv[0] == nl && nv[1] == 0 && len(nu) == 2 && nu[0] == "" && nu[1] == "b", "C01.rt.numlabel-units2: numeric label with mixed units changed")
	}
	vAssert(len(q.Sample[1].Label) == 0 && len(q.Sample[1].NumLabel) == 0, "C01.rt.nolabel: labels appeared on a sample without labels")

	// anything the parser returns re-serializes to identical bytes after one more round
	var buf2 bytes.Buffer
	q.WriteUncompressed(&buf2)
	q2, err := ParseUncompressed(buf2.Bytes())
	if err != nil {
		vAssert(false, "C01.rt.reparse: re-parsing a re-serialized profile failed")
		return
	}
	var buf3 bytes.Buffer
	q2.WriteUncompressed(&buf3)
	vAssert(bytes.Equal(buf2.Bytes(), buf3.Bytes()), "C01.rt.bytes: re-serialization of a parsed profile is not byte-identical")
}
