//go:build verif

package profile

import (
	"bytes"
	"sync"
)

// vFixedProfile: a small concrete profile with one symbolic sample value (the
// subject here is the schedule, not the data).
func vFixedProfile(tag string) *Profile {
	m := &Mapping{ID: 1, Start: 0x1000, Limit: 0x2000, File: "bin", BuildID: "id"}
	f := &Function{ID: 1, Name: "f", SystemName: "f", Filename: "f.go", StartLine: 1}
	l := &Location{ID: 1, Mapping: m, Address: 0x1010, Line: []Line{{Function: f, Line: 3}}}
	v := vInt64(tag + "v")
	vAssume(v > 0)
	vAssume(v < 128)
	return &Profile{
		SampleType: []*ValueType{{Type: "samples", Unit: "count"}},
		PeriodType: &ValueType{Type: "cpu", Unit: "ns"},
		Mapping:    []*Mapping{m}, Function: []*Function{f}, Location: []*Location{l},
		Sample:   []*Sample{{Location: []*Location{l}, Value: []int64{v}, Label: map[string][]string{"k": {"v"}}}},
		Comments: []string{"c"},
	}
}

func init() {
	vRegister("VerifC20CopyWrite", VerifC20CopyWrite)
	vRegister("VerifC20MergedVsSource", VerifC20MergedVsSource)
}

// VerifC20CopyWrite: a profile may be copied and serialized from several
// goroutines at once: no data race, no deadlock, results as if one at a time.
func VerifC20CopyWrite() {
	vRaceDetect()
	p := vFixedProfile("")
	var seq bytes.Buffer
	p.WriteUncompressed(&seq)
	var wg sync.WaitGroup
	wg.Add(2)
	var c *Profile
	var buf bytes.Buffer
	go func() {
		defer wg.Done()
		c = p.Copy()
	}()
	go func() {
		defer wg.Done()
		p.WriteUncompressed(&buf)
	}()
	wg.Wait()
	vReach("C20.copywrite:done")
	vAssert(bytes.Equal(buf.Bytes(), seq.Bytes()), "C20.copywrite.torn: bytes written concurrently with a Copy differ from the bytes written alone")
	var cb bytes.Buffer
	c.WriteUncompressed(&cb)
	vAssert(bytes.Equal(cb.Bytes(), seq.Bytes()), "C20.copywrite.copy: a copy taken concurrently with a write differs from the profile")
	vObserve(len(seq.Bytes()))
}

// VerifC20MergedVsSource: a merged profile is independent of its sources, so
// serializing the result and a source at the same time is safe.
func VerifC20MergedVsSource() {
	vRaceDetect()
	a := vFixedProfile("a.")
	b := vFixedProfile("b.")
	m, err := Merge([]*Profile{a, b})
	if err != nil {
		return
	}
	var wg sync.WaitGroup
	wg.Add(2)
	var b1, b2 bytes.Buffer
	go func() {
		defer wg.Done()
		m.WriteUncompressed(&b1)
	}()
	go func() {
		defer wg.Done()
		a.WriteUncompressed(&b2)
	}()
	wg.Wait()
	vObserve(len(b1.Bytes()) > 0, len(b2.Bytes()) > 0)
}
