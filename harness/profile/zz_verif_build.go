//go:build verif

package profile

import "strconv"

// vClass constrains a symbolic 64-bit value to one varint size class so that
// the encoder's length loop does not fork ten ways per field:
// 0: 1..127 (one byte)   1: >= 2^63 (ten bytes: negative int64 / huge uint64)   2: 128..16383 (two bytes)
func vClass(v uint64, cls int) {
	switch cls {
	case 0:
		vAssume(v >= 1)
		vAssume(v <= 127)
	case 1:
		vAssume(v >= 1<<63)
	case 2:
		vAssume(v >= 128)
		vAssume(v <= 16383)
	}
}

func vU(name string, cls int) uint64 {
	v := vUint64(name)
	vClass(v, cls)
	return v
}

func vI(name string, cls int) int64 { return int64(vU(name, cls)) }

// vStrPool holds the names used for strings that are not the subject of a harness.
var vStrPool = []string{"", "a", "b", "a.b", "\xff"}

// vSmallProfile builds a valid profile of a fixed small shape whose scalar
// fields are symbolic (all in varint size class cls):
//
//	1 mapping, 2 functions, 2 locations (loc0 has 2 inline lines, loc1 has 1),
//	2 samples (s0: [loc0 loc1], s1: [loc1]), ntypes sample types.
func vSmallProfile(tag string, cls, ntypes int) *Profile {
	n := func(s string) string { return tag + s }
	m := &Mapping{ID: vU(n("mid"), cls), Start: vU(n("mstart"), cls), Limit: vU(n("mlimit"), cls), Offset: vU(n("moff"), cls),
		File: "bin", BuildID: "id1", HasFunctions: vBool(n("hasfn")), HasLineNumbers: vBool(n("hasln"))}
	f0 := &Function{ID: vU(n("f0id"), cls), Name: "f0", SystemName: "_f0", Filename: "x.go", StartLine: vI(n("f0start"), cls)}
	f1 := &Function{ID: vU(n("f1id"), cls), Name: "f1", SystemName: "", Filename: "y.go", StartLine: vI(n("f1start"), cls)}
	vAssume(f0.ID != f1.ID)
	l0 := &Location{ID: vU(n("l0id"), cls), Mapping: m, Address: vU(n("l0addr"), cls), IsFolded: vBool(n("l0folded")),
		Line: []Line{{Function: f0, Line: vI(n("l0line0"), cls), Column: vI(n("l0col0"), cls)}, {Function: f1, Line: vI(n("l0line1"), cls), Column: vI(n("l0col1"), cls)}}}
	l1 := &Location{ID: vU(n("l1id"), cls), Mapping: m, Address: vU(n("l1addr"), cls),
		Line: []Line{{Function: f1, Line: vI(n("l1line0"), cls), Column: vI(n("l1col0"), cls)}}}
	vAssume(l0.ID != l1.ID)
	p := &Profile{
		Mapping:  []*Mapping{m},
		Function: []*Function{f0, f1},
		Location: []*Location{l0, l1},
	}
	types := []string{"samples", "cpu", "alloc"}
	units := []string{"count", "nanoseconds", "bytes"}
	for i := 0; i < ntypes; i++ {
		p.SampleType = append(p.SampleType, &ValueType{Type: types[i], Unit: units[i]})
	}
	s0 := &Sample{Location: []*Location{l0, l1}}
	s1 := &Sample{Location: []*Location{l1}}
	for i := 0; i < ntypes; i++ {
		s0.Value = append(s0.Value, vI(n("s0v"+strconv.Itoa(i)), cls))
		s1.Value = append(s1.Value, vI(n("s1v"+strconv.Itoa(i)), cls))
	}
	p.Sample = []*Sample{s0, s1}
	return p
}
