//go:build verif

package profile

import "bytes"

func init() {
	vRegister("VerifSelfTestWitness", VerifSelfTestWitness)
	vRegister("VerifSelfTestProof", VerifSelfTestProof)
}

// VerifSelfTestWitness is the reachability twin used by `gosymx selftest`:
// it contains a violation that needs one specific value, which the solver
// must find and the native build must reproduce. A tool chain that cannot
// find it would pass every check vacuously.
func VerifSelfTestWitness() {
	x := vUint64("x")
	var buf buffer
	encodeVarint(&buf, x)
	b := buf.data
	if len(b) == 3 && b[0] == 0x81 && b[1] == 0x82 && b[2] == 0x03 {
		vAssert(false, "selftest.witness: the planted varint was found")
	}
	y := vInt64("y")
	vAssume(y > 1000)
	if y*y == 1234321*1234321 {
		var p *Profile
		_ = p.Period // nil dereference: must be reported as a panic
	}
}

// VerifSelfTestProof must be proved: decodeVarint inverts encodeVarint for every uint64.
func VerifSelfTestProof() {
	x := vUint64("x")
	var buf buffer
	encodeVarint(&buf, x)
	b := buf.data
	v, rest, err := decodeVarint(bytes.Clone(b))
	vAssert(err == nil && len(rest) == 0 && v == x, "selftest.proof: varint round trip")
	vObserve(len(b))
}
