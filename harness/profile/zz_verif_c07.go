//go:build verif

package profile

import "math"

func init() {
	vRegister("VerifC07SelfDiff", VerifC07SelfDiff)
	vRegister("VerifC07ScaleN", VerifC07ScaleN)
	vRegister("VerifC07Subtract", VerifC07Subtract)
}

// vTwoStacks builds a profile with two samples on different stacks and nt sample types.
func vTwoStacks(tag string, nt int) *Profile {
	f1 := &Function{ID: 1, Name: "main"}
	f2 := &Function{ID: 2, Name: "work"}
	l1 := &Location{ID: 1, Address: 0x10, Line: []Line{{Function: f1}}}
	l2 := &Location{ID: 2, Address: 0x20, Line: []Line{{Function: f2}}}
	p := &Profile{Function: []*Function{f1, f2}, Location: []*Location{l1, l2}, PeriodType: &ValueType{Type: "cpu", Unit: "ns"}}
	types := []string{"samples", "cpu"}
	units := []string{"count", "ns"}
	s0 := &Sample{Location: []*Location{l2, l1}}
	s1 := &Sample{Location: []*Location{l1}}
	for i := 0; i < nt; i++ {
		p.SampleType = append(p.SampleType, &ValueType{Type: types[i], Unit: units[i]})
		s0.Value = append(s0.Value, vInt64(tag+"s0."+types[i]))
		s1.Value = append(s1.Value, vInt64(tag+"s1."+types[i]))
	}
	p.Sample = []*Sample{s0, s1}
	return p
}

// VerifC07SelfDiff: a profile minus itself is empty (this is what -base does:
// Scale(-1) on the base, then Merge).
func VerifC07SelfDiff() {
	p := vTwoStacks("", 1)
	q := vTwoStacks("", 1) // same symbolic values (same names)
	q.Scale(-1)
	m, err := Merge([]*Profile{p, q})
	if err != nil {
		vAssert(false, "C07.selfdiff.err: merging a profile with its negation failed")
		return
	}
	vObserve(len(m.Sample))
	vAssert(len(m.Sample) == 0, "C07.selfdiff.nonempty: a profile minus itself is not empty")
}

// VerifC07Subtract: source minus base, entry by entry.
func VerifC07Subtract() {
	p := vTwoStacks("src.", 1)
	b := vTwoStacks("base.", 1)
	for _, s := range append(append([]*Sample{}, p.Sample...), b.Sample...) {
		vAssume(s.Value[0] > -(1 << 52))
		vAssume(s.Value[0] < 1<<52)
	}
	a0, a1, b0, b1 := p.Sample[0].Value[0], p.Sample[1].Value[0], b.Sample[0].Value[0], b.Sample[1].Value[0]
	b.Scale(-1)
	m, err := Merge([]*Profile{p, b})
	if err != nil {
		vAssert(false, "C07.subtract.err: merge failed")
		return
	}
	var d0, d1 int64
	var n0, n1 int
	for _, s := range m.Sample {
		if len(s.Location) == 2 {
			d0 += s.Value[0]
			n0++
		} else {
			d1 += s.Value[0]
			n1++
		}
	}
	vObserve(len(m.Sample))
	vAssert(d0 == a0-b0, "C07.subtract.entry0: entry value is not source minus base")
	vAssert(d1 == a1-b1, "C07.subtract.entry1: entry value is not source minus base")
	vAssert(n0 <= 1 && n1 <= 1, "C07.subtract.dup: an entry appears twice")
}

// VerifC07ScaleN: per-column scaling converts values and never drops a sample
// that still has a non-zero column.
func VerifC07ScaleN() {
	p := vTwoStacks("", 2)
	ratioSets := [][]float64{{1, 1024}, {1024, 1}, {0.5, 1}, {1, 1}, {-1, -1}, {2, 0.25}, {1, 0}}
	ratios := ratioSets[vChoice("ratios", vBound("c07.ratios", len(ratioSets)))]
	type exp struct{ v [2]int64 }
	var want []exp
	for _, s := range p.Sample {
		var e exp
		for i, v := range s.Value {
			vAssume(v > -(1 << 40))
			vAssume(v < 1<<40)
			if ratios[i] == 1 {
				e.v[i] = v
			} else {
				e.v[i] = int64(math.Round(float64(v) * ratios[i]))
			}
		}
		want = append(want, e)
	}
	if err := p.ScaleN(ratios); err != nil {
		vAssert(false, "C07.scalen.err: ScaleN failed for matching ratios")
		return
	}
	k := 0
	for si, e := range want {
		nonzero := vOr(e.v[0] != 0, e.v[1] != 0)
		present := k < len(p.Sample) && len(p.Sample[k].Location) == 2-si
		if present {
			s := p.Sample[k]
			k++
			vAssert(s.Value[0] == e.v[0] && s.Value[1] == e.v[1], "C07.scalen.value: scaled value differs from round(value*ratio)")
			continue
		}
		scaledAllZero := true
		for i := range ratios {
			if ratios[i] != 1 {
				scaledAllZero = vAnd(scaledAllZero, e.v[i] == 0)
			}
		}
		if scaledAllZero {
			vAssert(!nonzero, "C07.scalen.dropped-unscaled-nonzero: a sample whose only non-zero values are in columns with ratio 1 was dropped")
		} else {
			vAssert(!nonzero, "C07.scalen.dropped: a sample with a non-zero value was dropped")
		}
	}
	vAssert(k == len(p.Sample), "C07.scalen.extra: unexpected sample order or extra sample")
	vObserve(len(p.Sample))
}
