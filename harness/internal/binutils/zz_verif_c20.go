//go:build verif

package binutils

import "sync"

func init() {
	vRegister("VerifC20Update", VerifC20Update)
}

// VerifC20Update: two configuration updates and a reader at the same time
// (SetFastSymbolization || a tool update as SetTools makes || get): no update
// is lost, the reader sees one of the published configurations, no race.
func VerifC20Update() {
	vRaceDetect()
	bu := &Binutils{rep: &binrep{addr2line: "a2l", addr2lineFound: true}}
	var wg sync.WaitGroup
	wg.Add(3)
	go func() {
		defer wg.Done()
		bu.SetFastSymbolization(true)
	}()
	go func() {
		defer wg.Done()
		// what SetTools does, without searching the file system
		bu.update(func(r *binrep) { r.nm, r.nmFound = "/opt/nm", true })
	}()
	var seen *binrep
	go func() {
		defer wg.Done()
		seen = bu.get()
	}()
	wg.Wait()
	r := bu.get()
	vAssert(r.fast, "sched:C20.update.lost-fast: SetFastSymbolization was lost to a concurrent tool update")
	vAssert(r.nmFound && r.nm == "/opt/nm", "sched:C20.update.lost-tools: a tool update was lost to a concurrent SetFastSymbolization")
	vAssert(r.addr2lineFound && r.addr2line == "a2l", "sched:C20.update.base: an update dropped untouched settings")
	// the reader's snapshot is immutable: it is one of the four published states
	ok := seen != nil
	if ok {
		ok = seen.addr2line == "a2l" && (seen.nm == "" || seen.nm == "/opt/nm")
	}
	vAssert(ok, "sched:C20.update.reader: a concurrent reader saw a configuration that was never published")
}
