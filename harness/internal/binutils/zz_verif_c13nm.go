//go:build verif

package binutils

import (
	"debug/elf"
	"errors"
	"strconv"
	"sync"
)

func init() {
	vRegister("VerifC13NMLookup", VerifC13NMLookup)
	vRegister("VerifC13Addr2LineNM", VerifC13Addr2LineNM)
	vRegister("VerifC20BaseOnce", VerifC20BaseOnce)
}

// VerifC13NMLookup: looking an address up in a sorted symbol table returns the
// symbol with the greatest start not above it (data symbols only within their size).
func VerifC13NMLookup() {
	n := 1 + vChoice("nsym", vBound("c13.nsym", 4))
	a := &addr2LinerNM{}
	for i := 0; i < n; i++ {
		s := symbolInfo{address: vUint64("a" + strconv.Itoa(i)), size: vUint64("sz" + strconv.Itoa(i)), name: "s" + strconv.Itoa(i), symType: "T"}
		if vChoice("data"+strconv.Itoa(i), 2) == 1 {
			s.symType = "D"
		}
		vAssume(s.address < 1<<47)
		vAssume(s.size < 1<<32)
		if i > 0 {
			vAssume(a.m[i-1].address <= s.address)
		}
		a.m = append(a.m, s)
	}
	addr := vUint64("addr")
	vAssume(addr < 1<<48)
	frames, err := a.addrInfo(addr)
	vAssert(err == nil, "C13.nm.err: lookup failed")
	// reference: greatest start not above addr
	best := -1
	for i := range a.m {
		if a.m[i].address <= addr {
			best = i
		}
	}
	if len(frames) > 0 {
		vObserve(frames[0].Func)
		got := -1
		for i := range a.m {
			if a.m[i].name == frames[0].Func {
				got = i
			}
		}
		if got < 0 || best < 0 {
			vAssert(false, "C13.nm.unknown: a symbol was returned although no symbol starts at or below the address")
			return
		}
		vAssert(a.m[got].address == a.m[best].address, "C13.nm.greatest: the symbol returned is not one with the greatest start at or below the address")
		if a.m[got].symType == "D" {
			vAssert(addr < a.m[got].address+a.m[got].size, "C13.nm.data-size: a data symbol was returned for an address beyond its size")
		}
		return
	}
	vObserve("")
	if best < 0 {
		return // below the first symbol
	}
	last := a.m[n-1]
	pastEnd := addr >= last.address+last.size
	// a nil answer is right past the end of the table, or when a symbol with the
	// greatest start is a data symbol that does not cover the address (with
	// several symbols at that start the statement does not say which one counts)
	allCover := true
	for i := range a.m {
		if a.m[i].address == a.m[best].address {
			if a.m[i].symType == "D" && addr >= a.m[i].address+a.m[i].size {
				allCover = false
			}
		}
	}
	vAssert(pastEnd || !allCover, "C13.nm.missed: no symbol returned although every symbol with the greatest start at or below the address covers it")
}

var errVerifEOF = errors.New("eof")

// vA2L is a scripted addr2line: it records what is written and answers one
// frame with a short name followed by the sentinel record.
type vA2L struct {
	written []string
	lines   []string
}

func (r *vA2L) write(s string) error {
	r.written = append(r.written, s)
	return nil
}

func (r *vA2L) readLine() (string, error) {
	if len(r.lines) == 0 {
		return "", errVerifEOF
	}
	l := r.lines[0]
	r.lines = r.lines[1:]
	return l, nil
}

func (r *vA2L) close() {}

// VerifC13Addr2LineNM: addr2line is asked about the link-time address
// (runtime address minus base) while the nm table, which holds run-time
// addresses, is consulted with the run-time address.
func VerifC13Addr2LineNM() {
	bpg := vUint64("basepg")
	vAssume(bpg < 1<<35)
	base := bpg << 12
	off := vUint64("off")
	vAssume(off < 0x50)
	addr := base + 0x100 + off
	nm := &addr2LinerNM{m: []symbolInfo{
		{address: base + 0x40, size: 0x40, name: "before_long_name", symType: "T"},
		{address: base + 0x100, size: 0x50, name: "target_long_name", symType: "T"},
		{address: base + 0x200, size: 0x50, name: "after_long_name", symType: "T"},
	}}
	rw := &vA2L{lines: []string{"0x100", "tg", "file.c:10", "0xffffffffffffffff", "??", "??:0"}}
	d := &addr2Liner{rw: rw, base: base, nm: nm}
	stack, err := d.addrInfo(addr)
	vAssert(err == nil && len(stack) == 1, "C13.a2l.err: scripted addr2line answer was not understood")
	if err != nil || len(stack) != 1 {
		return
	}
	vAssert(len(rw.written) == 2 && vStrEq(rw.written[0], strconv.FormatUint(addr-base, 16)), "C13.a2l.query: addr2line was not asked about the runtime address minus the base")
	vAssert(stack[0].Func == "target_long_name", "C13.a2l.nm: the nm table (run-time addresses) was not consulted with the run-time address")
	vObserve(stack[0].Func, stack[0].Line)
}

// VerifC20BaseOnce (property C20): two goroutines symbolize addresses through
// the same file object; the base is computed once and both see it.
func VerifC20BaseOnce() {
	vRaceDetect()
	phs := vC13Layout(1, 0)
	x := phs[0]
	bpg := vUint64("biaspg")
	vAssume(bpg < uint64(1)<<35)
	vAssume(bpg >= 16) // a user-space bias (keeps clear of the recorded kernel-heuristic finding)
	bias := bpg << 12
	vAssume(x.Off >= vPage) // bias != page offset of the segment
	vAssume(x.Off>>12 != bpg)
	start := bias + vPageDown(x.Vaddr)
	limit := bias + vPageUp(x.Vaddr+x.Filesz)
	offset := vPageDown(x.Off)
	a1, a2 := vUint64("addr1"), vUint64("addr2")
	for _, a := range []uint64{a1, a2} {
		vAssume(start <= a)
		vAssume(a < limit)
		vAssume(x.Vaddr <= a-bias)
		vAssume(a-bias < x.Vaddr+x.Filesz)
	}
	ef := &elf.File{FileHeader: elf.FileHeader{Type: elf.ET_DYN}, Progs: []*elf.Prog{{ProgHeader: x}}}
	saved := elfOpen
	opens := 0
	elfOpen = func(string) (*elf.File, error) { opens++; return ef, nil }
	defer func() { elfOpen = saved }()
	f := &file{name: "f", m: &elfMapping{start: start, limit: limit, offset: offset}}
	var wg sync.WaitGroup
	wg.Add(2)
	var r1, r2 uint64
	var e1, e2 error
	go func() { defer wg.Done(); r1, e1 = f.ObjAddr(a1) }()
	go func() { defer wg.Done(); r2, e2 = f.ObjAddr(a2) }()
	wg.Wait()
	vAssert(e1 == nil && e2 == nil, "C20.baseonce.err: concurrent ObjAddr failed")
	vAssert(r1 == a1-bias && r2 == a2-bias, "C20.baseonce.addr: concurrent ObjAddr results differ from the sequential ones")
	vAssert(opens == 1, "C20.baseonce.twice: the base was computed more than once")
}

func init() { vRegister("VerifC13LLVM", VerifC13LLVM) }

// vFakeLLVM stands for the llvm-symbolizer process: it records the queries and answers one fixed frame.
type vFakeLLVM struct {
	queries []string
}

func (f *vFakeLLVM) write(s string) error { f.queries = append(f.queries, s); return nil }
func (f *vFakeLLVM) readLine() (string, error) {
	return `{"Address":"0x10","ModuleName":"bin","Symbol":[{"Line":3,"Column":1,"FunctionName":"f","FileName":"f.c","StartLine":2}]}`, nil
}
func (f *vFakeLLVM) close() {}

// VerifC13LLVM: the llvm-symbolizer wrapper asks for the object address
// addr - base (modulo 2^64: objects loaded below their link address have a
// wrapped base) for every address and load base, and returns the frames it
// is given.
func VerifC13LLVM() {
	addr, base := vUint64("addr"), vUint64("base")
	fake := &vFakeLLVM{}
	d := &llvmSymbolizer{filename: "bin", rw: fake, base: base}
	frames, err := d.addrInfo(addr)
	vReach("C13.llvm:asked")
	vAssert(err == nil, "C13.llvm.error: the symbolizer wrapper failed for an address")
	if len(fake.queries) != 1 {
		vAssert(false, "C13.llvm.query: not exactly one query was sent for the address")
		return
	}
	want := "bin 0x" + strconv.FormatUint(addr-base, 16)
	vAssert(vStrEq(fake.queries[0], want), "C13.llvm.query: the address sent to llvm-symbolizer is not addr - base")
	ok := len(frames) == 1
	if ok {
		ok = frames[0].Func == "f" && frames[0].File == "f.c" && frames[0].Line == 3
	}
	vAssert(ok, "C13.llvm.frames: the frames answered by the symbolizer were not returned")
}
