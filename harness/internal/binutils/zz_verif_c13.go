//go:build verif

package binutils

import (
	"debug/elf"
	"strconv"
)

func init() {
	vRegister("VerifC13ObjAddr", VerifC13ObjAddr)
}

const vPage = 0x1000

func vPageDown(x uint64) uint64 { return x &^ (vPage - 1) }
func vPageUp(x uint64) uint64   { return (x + vPage - 1) &^ (vPage - 1) }

// vC13Layout builds k PT_LOAD headers that satisfy the linker's
// well-formedness rules (assumed, not checked): p_offset ≡ p_vaddr (mod page),
// ascending and disjoint in memory and in the file, filesz ≤ memsz, no wrap.
func vC13Layout(k, exec int) []elf.ProgHeader {
	const lim = uint64(1) << 47
	phs := make([]elf.ProgHeader, k)
	for i := 0; i < k; i++ {
		p := &phs[i]
		n := strconv.Itoa(i)
		p.Type = elf.PT_LOAD
		// p_offset ≡ p_vaddr (mod page) by construction: same low 12 bits
		low := vUint64("low" + n)
		vAssume(low < vPage)
		opg := vUint64("offpg" + n)
		vpg := vUint64("vaddrpg" + n)
		vAssume(opg < lim>>12)
		vAssume(vpg < lim>>12)
		p.Off = opg<<12 + low
		p.Vaddr = vpg<<12 + low
		p.Filesz = vUint64("filesz" + n)
		p.Memsz = vUint64("memsz" + n)
		p.Paddr = p.Vaddr
		p.Align = vPage
		if i == exec {
			p.Flags = elf.PF_R | elf.PF_X
			vAssume(p.Filesz > 0)
		} else {
			p.Flags = elf.PF_R | elf.PF_W
		}
		vAssume(p.Memsz < lim)
		vAssume(p.Memsz > 0)
		vAssume(p.Filesz <= p.Memsz)
		if i > 0 {
			q := &phs[i-1]
			// segments do not share a page in memory unless they also share it in the file
			vAssume(q.Vaddr+q.Memsz <= p.Vaddr)
			vAssume(q.Off+q.Filesz <= p.Off)
		}
	}
	return phs
}

// VerifC13ObjAddr: for every linker-well-formed layout, load bias and sampled
// address inside the file-backed part of the executable segment, ObjAddr
// returns address-minus-bias, or an error only when the owning segment is not
// identifiable by file offset.
func VerifC13ObjAddr() {
	k := 1 + vChoice("nseg", vBound("c13.maxseg", 3))
	e := vChoice("exec", k)
	phs := vC13Layout(k, e)
	dynKind := vChoice("dyn", 3) // 0: ET_EXEC, 1: ET_DYN loaded at or above its link address, 2: ET_DYN loaded below it
	dyn := dynKind != 0
	bias := uint64(0)
	typ := elf.ET_EXEC
	if dynKind == 1 {
		typ = elf.ET_DYN
		bpg := vUint64("biaspg")
		vAssume(bpg < uint64(1)<<35)
		bias = bpg << 12
	} else if dynKind == 2 {
		// a negative load bias (two's complement): the image sits below its link-time address,
		// as prelinked libraries or objects linked with a non-zero text-segment address do
		typ = elf.ET_DYN
		nb := vUint64("negbiaspg")
		vAssume(nb > 0)
		vAssume(nb<<12 <= vPageDown(phs[0].Vaddr)) // the lowest page stays at a non-negative address
		bias = -(nb << 12)
	} else {
		vAssume(phs[e].Vaddr >= vPage)
	}
	x := phs[e]
	// What the kernel's ELF loader maps for segment e (file-backed pages).
	start := bias + vPageDown(x.Vaddr)
	limit := bias + vPageUp(x.Vaddr+x.Filesz)
	offset := vPageDown(x.Off)
	// optional split of the VMA at a page boundary (mprotect, huge pages...)
	switch vChoice("split", 3) {
	case 1: // keep the low part
		spg := vUint64("splitpg")
		vAssume(spg < uint64(1)<<36)
		s := spg << 12
		vAssume(start < s)
		vAssume(s < limit)
		limit = s
	case 2: // keep the high part
		spg := vUint64("splitpg")
		vAssume(spg < uint64(1)<<36)
		s := spg << 12
		vAssume(start < s)
		vAssume(s < limit)
		offset += s - start
		start = s
	}
	addr := vUint64("addr")
	vAssume(start <= addr)
	vAssume(addr < limit)
	// the sample lies in the bytes of the segment proper (not page padding)
	vAssume(x.Vaddr <= addr-bias)
	vAssume(addr-bias < x.Vaddr+x.Filesz)

	progs := make([]*elf.Prog, k)
	for i := range phs {
		progs[i] = &elf.Prog{ProgHeader: phs[i]}
	}
	ef := &elf.File{FileHeader: elf.FileHeader{Type: typ}, Progs: progs}
	saved := elfOpen
	elfOpen = func(string) (*elf.File, error) { return ef, nil }
	defer func() { elfOpen = saved }()

	f := &file{name: "f", m: &elfMapping{start: start, limit: limit, offset: offset}}
	got, err := f.ObjAddr(addr)
	vReach("C13_objaddr:called")
	vObserve(err == nil, got)
	if err == nil {
		if dyn && x.Vaddr == start-offset {
			// GetBase tries its kernel heuristics first for ET_DYN; the first one
			// (segment vaddr == mapping start - mapping offset) also matches user
			// space objects loaded at a bias equal to the segment's page offset.
			vAssert(got == addr-bias, "C13.objaddr.wrong.kernel-heuristic-on-user-dyn: ObjAddr returned an address different from runtime address minus load bias (ET_DYN, vaddr == start-offset)")
			return
		}
		vAssert(got == addr-bias, "C13.objaddr.wrong: ObjAddr returned an address different from runtime address minus load bias")
		return
	}
	// An error is only acceptable when the owning segment is not unique by file offset.
	fo := addr - start + offset
	n := int64(0)
	for i := range phs {
		p := &phs[i]
		n += vB2I(vAnd(vAnd(p.Filesz > 0, p.Off <= fo), fo < p.Off+p.Memsz))
	}
	vAssert(n != 1, "C13.objaddr.spurious-error: error although exactly one segment contains the file offset")
}
