//go:build verif

package measurement

import (
	"math"
	"strconv"

	"github.com/google/pprof/profile"
)

func init() {
	vRegister("VerifC15ScaleBytes", VerifC15ScaleBytes)
	vRegister("VerifC15ScaleTime", VerifC15ScaleTime)
	vRegister("VerifC15Unknown", VerifC15Unknown)
	vRegister("VerifC15ScaleProfiles", VerifC15ScaleProfiles)
}

type vUnitT struct {
	spell  string
	canon  string
	factor float64
}

var vByteUnits = []vUnitT{
	{"B", "B", 1}, {"kilobytes", "kB", 1 << 10}, {"PB", "PB", 1 << 50}, {"MBYTES", "MB", 1 << 20}, {"GB", "GB", 1 << 30}, {"TB", "TB", 1 << 40},
	{"byte", "B", 1}, {"bytes", "B", 1}, {"KB", "kB", 1 << 10}, {"kB", "kB", 1 << 10}, {"Megabyte", "MB", 1 << 20}, {"MB", "MB", 1 << 20}, {"gbyte", "GB", 1 << 30}, {"TBYTES", "TB", 1 << 40}, {"petabyte", "PB", 1 << 50},
}

var vTimeUnits = []vUnitT{
	{"ns", "ns", 1}, {"us", "us", 1e3}, {"ms", "ms", 1e6}, {"s", "s", 1e9}, {"hrs", "hrs", 3.6e12},
	{"nanoseconds", "ns", 1}, {"microsecond", "us", 1e3}, {"Milliseconds", "ms", 1e6}, {"sec", "s", 1e9}, {"seconds", "s", 1e9}, {"hour", "hrs", 3.6e12},
}

func vFamily(units []vUnitT, canon string) bool {
	for _, u := range units {
		if u.canon == canon {
			return true
		}
	}
	return false
}

// VerifC15ScaleBytes: conversions inside the bytes family for every int64.
func VerifC15ScaleBytes() {
	v := vInt64("v")
	from := vByteUnits[vChoice("from", vBound("c15.nfrom", len(vByteUnits)))]
	mode := vChoice("mode", 3)
	switch mode {
	case 0: // explicit target unit of the family
		to := vByteUnits[vChoice("to", vBound("c15.nto", len(vByteUnits)))]
		r, u := Scale(v, from.spell, to.spell)
		vObserve(r, u)
		vAssert(u == to.canon, "C15.bytes.unit: explicit conversion returned a different unit")
		// exact ratio: all factors are powers of two, so the product is exact in float64
		want := float64(v) * from.factor / to.factor
		vAssert(r == want, "C15.bytes.ratio: result differs from value*factor(from)/factor(to)")
		if from.canon == to.canon {
			vAssert(r == float64(v), "C15.bytes.identity: equal units must not change the value")
		}
		if v != math.MinInt64 {
			r2, u2 := Scale(-v, from.spell, to.spell)
			vAssert(u2 == u, "C15.bytes.neg-unit: negation changed the unit")
			vAssert(r2 == -r, "C15.bytes.neg: conversion does not commute with negation")
		}
	case 1, 2: // automatic selection
		target := "auto"
		if mode == 2 {
			target = "minimum"
		}
		r, u := Scale(v, from.spell, target)
		vObserve(r, u)
		vAssert(vFamily(vByteUnits, u), "C15.bytes.auto-family: automatic unit is not a unit of the bytes family")
		a := math.Abs(r)
		base := math.Abs(float64(v) * from.factor) // bytes
		if base >= 1 {
			vAssert(a >= 1, "C15.bytes.auto-ge1: automatic unit makes the magnitude drop below one")
			if u != "PB" {
				vAssert(a < 1024, "C15.bytes.auto-largest: a larger unit would keep the magnitude at or above one")
			}
		} else {
			vAssert(u == "B", "C15.bytes.auto-zero: a value below one byte must be shown in bytes")
		}
		// the label read back with its unit is the original magnitude (exact: powers of two)
		for _, t := range vByteUnits {
			if t.canon == u {
				vAssert(a*t.factor == base, "C15.bytes.auto-magnitude: scaled value times unit factor differs from the original magnitude")
			}
		}
	}
}

// VerifC15ScaleTime: time family, explicit targets in differential form plus
// threshold behaviour of automatic selection.
func VerifC15ScaleTime() {
	v := vInt64("v")
	vAssume(v > -(int64(1) << vBound("c15.timebits", 40)))
	vAssume(v < int64(1)<<vBound("c15.timebits", 40))
	from := vTimeUnits[vChoice("from", len(vTimeUnits))]
	if vChoice("mode", 2) == 0 {
		to := vTimeUnits[vChoice("to", len(vTimeUnits))]
		r, u := Scale(v, from.spell, to.spell)
		vObserve(r, u)
		vAssert(u == to.canon, "C15.time.unit: explicit conversion returned a different unit")
		var want float64
		if v < 0 {
			want = -(float64(-v) * from.factor / to.factor)
		} else {
			want = float64(v) * from.factor / to.factor
		}
		vAssert(r == want, "C15.time.ratio: result differs from value*factor(from)/factor(to)")
		return
	}
	r, u := Scale(v, from.spell, "auto")
	vObserve(r, u)
	vAssert(vFamily(vTimeUnits, u), "C15.time.auto-family: automatic unit is not a unit of the time family")
	if v != 0 {
		vAssert(math.Abs(r) >= 1 || u == "ns", "C15.time.auto-ge1: automatic unit makes the magnitude drop below one")
	}
}

// VerifC15Unknown: an unknown unit never converts and never changes the value; families never cross.
func VerifC15Unknown() {
	v := vInt64("v")
	unknown := []string{"", "foo", "bs", "kbz", "count", "samples", "mbytez", "GCUz", "hz"}
	from := unknown[vChoice("from", len(unknown))]
	targets := []string{"auto", "minimum", "kB", "s", "GCU", "foo", "", "count", "unit", "sample"}
	to := targets[vChoice("to", len(targets))]
	r, u := Scale(v, from, to)
	vObserve(r, u)
	vAssert(r == float64(v), "C15.unknown.value: a value in an unknown unit was rescaled")
	switch to {
	case "count", "sample", "unit", "minimum", "auto":
		vAssert(u == "", "C15.unknown.unit: uninteresting target unit must be dropped")
	default:
		vAssert(u == to, "C15.unknown.unit2: target unit not echoed for an unknown source unit")
	}
	// crossing families: bytes -> time target falls back to the family default, never the foreign unit
	rb, ub := Scale(v, "kB", "ms")
	vAssert(ub == "B", "C15.cross.unit: bytes value converted into a time unit")
	vAssert(rb == float64(v)*1024, "C15.cross.value: cross-family request changed the magnitude")
}

// VerifC15ScaleProfiles: harmonising the units of several profiles picks the
// finest unit and preserves every profile's physical totals.
func VerifC15ScaleProfiles() {
	units := []vUnitT{{"ns", "ns", 1}, {"us", "us", 1e3}, {"ms", "ms", 1e6}, {"s", "s", 1e9}, {"nanoseconds", "ns", 1}, {"SECONDS", "s", 1e9}}
	k := 2 + vChoice("k", vBound("c15.profiles", 2))
	var ps []*profile.Profile
	var us []vUnitT
	var vals []int64
	finest := 0
	for i := 0; i < k; i++ {
		u := units[vChoice("unit"+strconv.Itoa(i), vBound("c15.punits", 4))]
		us = append(us, u)
		if u.factor < us[finest].factor {
			finest = i
		}
		// values from a pool (products with 10^k are out of the solver's reach; the subject is the unit choice)
		v := []int64{1500, -3, 7, 1 << 40}[vChoice("v"+strconv.Itoa(i), 4)]
		vals = append(vals, v)
		ps = append(ps, &profile.Profile{
			SampleType: []*profile.ValueType{{Type: "cpu", Unit: u.spell}},
			Sample:     []*profile.Sample{{Value: []int64{v}}, {Value: []int64{1}}},
		})
	}
	if err := ScaleProfiles(ps); err != nil {
		vAssert(false, "C15.scaleprofiles.err: compatible units were rejected")
		return
	}
	for i, p := range ps {
		got, _ := Scale(1, p.SampleType[0].Unit, us[finest].canon)
		vAssert(got == 1, "C15.scaleprofiles.unit: the common unit is not the finest unit of the inputs")
		ratio := us[i].factor / us[finest].factor
		var want int64
		if ratio == 1 {
			want = vals[i]
		} else {
			want = int64(math.Round(float64(vals[i]) * ratio))
		}
		found := false
		for _, s := range p.Sample {
			if s.Value[0] == want {
				found = true
			}
		}
		vAssert(vOr(found, want == 0), "C15.scaleprofiles.total: a profile's values were not converted by the exact ratio of the units")
		vObserve(p.SampleType[0].Unit)
	}
}

func init() { vRegister("VerifC15ScaleColumns", VerifC15ScaleColumns) }

// VerifC15ScaleColumns: ScaleProfiles on profiles with two sample types whose
// units are chosen independently per profile and per column: each column ends
// in the finest unit of that column and its values are converted by that
// column's own ratio.
func VerifC15ScaleColumns() {
	units := []vUnitT{{"ns", "ns", 1}, {"us", "us", 1e3}, {"ms", "ms", 1e6}}
	nu := vBound("c15.cunits", 3)
	const k, cols = 2, 2
	var ps []*profile.Profile
	var us [k][cols]vUnitT
	vals := [k][cols]int64{{1500, 7}, {-3, 6000}}
	for i := 0; i < k; i++ {
		p := &profile.Profile{Sample: []*profile.Sample{{Value: []int64{vals[i][0], vals[i][1]}}}}
		for c := 0; c < cols; c++ {
			u := units[vChoice("unit"+strconv.Itoa(i)+"."+strconv.Itoa(c), nu)]
			us[i][c] = u
			p.SampleType = append(p.SampleType, &profile.ValueType{Type: []string{"cpu", "wall"}[c], Unit: u.spell})
		}
		ps = append(ps, p)
	}
	if err := ScaleProfiles(ps); err != nil {
		vAssert(false, "C15.scalecolumns.err: compatible units were rejected")
		return
	}
	for c := 0; c < cols; c++ {
		finest := us[0][c]
		if us[1][c].factor < finest.factor {
			finest = us[1][c]
		}
		for i, p := range ps {
			vAssert(p.SampleType[c].Unit == finest.canon, "C15.scalecolumns.unit: a column's common unit is not the finest unit of that column")
			want := int64(math.Round(float64(vals[i][c]) * (us[i][c].factor / finest.factor)))
			vAssert(p.Sample[0].Value[c] == want, "C15.scalecolumns.value: a column's values were not converted by that column's own ratio")
		}
	}
	vObserve(ps[0].SampleType[0].Unit, ps[0].SampleType[1].Unit)
}
