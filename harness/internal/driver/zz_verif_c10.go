//go:build verif

package driver

import (
	"bytes"
	"io"
	"net/http"
	"net/url"
	"strings"
	"sync"

	"github.com/google/pprof/internal/plugin"
	"github.com/google/pprof/internal/report"
	"github.com/google/pprof/profile"
)

func init() {
	vRegister("VerifC10Web", VerifC10Web)
	vRegister("VerifC10Interactive", VerifC10Interactive)
	vRegister("VerifC10History", VerifC10History)
	vRegister("VerifC10Concurrent", VerifC10Concurrent)
	vRegister("VerifC10WebConcurrent", VerifC10WebConcurrent)
}

// vC10Profile: main -> work -> leaf and main -> leaf, sample values symbolic
// (one varint byte each so that serialization does not fork).
func vC10Profile() *profile.Profile {
	m := &profile.Mapping{ID: 1, Start: 0x1000, Limit: 0x9000, File: "bin", HasFunctions: true}
	fs := []*profile.Function{{ID: 1, Name: "main", SystemName: "main", Filename: "m.go"}, {ID: 2, Name: "work", SystemName: "work", Filename: "w.go"}, {ID: 3, Name: "leaf", SystemName: "leaf", Filename: "l.go"}}
	var ls []*profile.Location
	for i, f := range fs {
		ls = append(ls, &profile.Location{ID: uint64(i + 1), Mapping: m, Address: uint64(0x1000 + 16*i), Line: []profile.Line{{Function: f, Line: int64(i + 1)}}})
	}
	v0, v1 := vInt64("v0"), vInt64("v1")
	for _, v := range []int64{v0, v1} {
		vAssume(v >= 1)
		vAssume(v <= 127)
	}
	return &profile.Profile{
		SampleType: []*profile.ValueType{{Type: "samples", Unit: "count"}},
		PeriodType: &profile.ValueType{Type: "cpu", Unit: "ns"}, Period: 1,
		Mapping:    []*profile.Mapping{m}, Function: fs, Location: ls,
		Sample: []*profile.Sample{
			{Location: []*profile.Location{ls[2], ls[1], ls[0]}, Value: []int64{v0}, Label: map[string][]string{"k": {"a"}}},
			{Location: []*profile.Location{ls[2], ls[0]}, Value: []int64{v1}, NumLabel: map[string][]int64{"bytes": {16}}, NumUnit: map[string][]string{"bytes": {"bytes"}}},
		},
	}
}

var vC10Lines = [][]string{
	{"top"},
	{"top", "work"},
	{"top", "-work"},
	{"top", "1", "-cum"},
	{"tree", "leaf"},
	{"peek", "main"},
	{"traces"},
	{"tags"},
	{"top", ">out.txt"},
	{"tags", "k"},
}

// vSer is the content of a profile (its uncompressed serialization).
func vSer(p *profile.Profile) string {
	var buf bytes.Buffer
	p.WriteUncompressed(&buf)
	return string(buf.Bytes())
}

type vItem struct {
	name      string
	flat, cum int64
}

// vC10Run executes one interactive line on a fresh copy, as the interactive
// loop and the web UI do, and returns the structured result.
func vC10Run(copier profileCopier, line []string, o *plugin.Options) ([]vItem, bool) {
	cmd, cfg, err := parseCommandLine(append([]string{}, line...))
	if err != nil {
		return nil, false
	}
	p := copier.newCopy()
	_, rpt, err := generateRawReport(p, cmd, cfg, o)
	if err != nil {
		return nil, false
	}
	items, _ := report.TextItems(rpt)
	var out []vItem
	for _, it := range items {
		out = append(out, vItem{it.Name, it.Flat, it.Cum})
	}
	return out, true
}

func vSameItems(a, b []vItem) bool {
	if len(a) != len(b) {
		return false
	}
	r := true
	for i := range a {
		if a[i].name != b[i].name {
			return false
		}
		r = vAnd(r, vAnd(a[i].flat == b[i].flat, a[i].cum == b[i].cum))
	}
	return r
}

// VerifC10History: the result of a command depends only on the loaded
// profile, the options in effect and its own arguments - not on the commands
// that ran before it.
func VerifC10History() {
	p := vC10Profile()
	copier := makeProfileCopier(p)
	o := &plugin.Options{UI: &vNullUI{}}
	nl := vBound("c10.lines", len(vC10Lines))
	a := vC10Lines[vChoice("lineA", nl)]
	b := vC10Lines[vChoice("lineB", nl)]
	before := currentConfig()
	vFreeze(p, "loaded-profile")
	pristine := vSer(copier.newCopy())
	first, ok1 := vC10Run(copier, a, o)
	_, _ = vC10Run(copier, b, o)
	again, ok2 := vC10Run(copier, a, o)
	vUnfreeze()
	vAssert(vStrEq(vSer(copier.newCopy()), pristine), "C10.history.copy: a copy handed out after the commands differs from one handed out before them")
	vReach("C10.history:done")
	vAssert(ok1 == ok2, "C10.history.outcome: the same command succeeds or fails depending on what ran before")
	if ok1 && ok2 {
		vAssert(vSameItems(first, again), "C10.history.result: the same command gives a different report after another command ran")
		vObserve(len(first))
	}
	after := currentConfig()
	vAssert(after == before, "C10.history.options: a command's arguments changed the persistent options")
	// option assignments, in contrast, persist
	if err := configure("focus", "work"); err == nil {
		_, cfg, err := parseCommandLine([]string{"top"})
		vAssert(err == nil && cfg.Focus == "work", "C10.history.assign: an option assignment is not in effect for the next command")
	}
	setCurrentConfig(before)
}

// VerifC10Concurrent: two web requests at once see the same results as one after the other.
func VerifC10Concurrent() {
	vRaceDetect()
	p := vC10Profile()
	copier := makeProfileCopier(p)
	o := &plugin.Options{UI: &vNullUI{}}
	nl := vBound("c10.clines", 4)
	a := vC10Lines[vChoice("lineA", nl)]
	b := vC10Lines[vChoice("lineB", nl)]
	seqA, okA := vC10Run(copier, a, o)
	seqB, okB := vC10Run(copier, b, o)
	var wg sync.WaitGroup
	wg.Add(2)
	var ra, rb []vItem
	var oa, ob bool
	go func() { defer wg.Done(); ra, oa = vC10Run(copier, a, o) }()
	go func() { defer wg.Done(); rb, ob = vC10Run(copier, b, o) }()
	wg.Wait()
	vAssert(oa == okA && ob == okB, "C10.concurrent.outcome: a request's outcome depends on a concurrent request")
	if oa && okA {
		vAssert(vSameItems(ra, seqA), "C10.concurrent.result: a request's report differs when another request runs concurrently")
	}
	if ob && okB {
		vAssert(vSameItems(rb, seqB), "C10.concurrent.result: a request's report differs when another request runs concurrently")
	}
}

var vC10Queries = []string{
	"",
	"f=work",
	"i=work",
	"h=leaf",
	"s=main",
	"sf=work",
	"n=1&sort=cum",
	"tf=a",
	"ti=a",
	"calltree=t&nf=0.5",
	"g=filefunctions",
	"th=k",
	"ts=bytes",
	"si=nosuchtype",
	"f=nomatch",
	"f=work&ts=%5B", // rejected (malformed tagshow expression) after the copy was already filtered
	"h=leaf&th=%5B",
}

// vRespWriter is the http.ResponseWriter of a request (transport is outside the claim).
type vRespWriter struct {
	h    http.Header
	code int
}

func (w *vRespWriter) Header() http.Header {
	if w.h == nil {
		w.h = http.Header{}
	}
	return w.h
}
func (w *vRespWriter) Write(b []byte) (int, error) { return len(b), nil }
func (w *vRespWriter) WriteHeader(code int)        { w.code = code }

// vC10Request serves one request; the result is the structured report plus
// the warnings shown on the page (makeReport's second result).
func vC10Request(ui *webInterface, q string, edit func(*config)) ([]vItem, string, bool) {
	return vC10RequestCmd(ui, q, edit, []string{"top"})
}

// vC10RequestCmd: cmd is what the page's handler passes to makeReport
// (/top: top; /source: weblist <f>; /peek: peek <f>; /disasm: disasm <f>).
func vC10RequestCmd(ui *webInterface, q string, edit func(*config), cmd []string) ([]vItem, string, bool) {
	u, err := url.Parse("http://localhost/top?" + q)
	if err != nil {
		return nil, "", false
	}
	rpt, errs := ui.makeReport(&vRespWriter{}, &http.Request{URL: u}, cmd, edit)
	if rpt == nil {
		return nil, "", false
	}
	items, _ := report.TextItems(rpt)
	var out []vItem
	for _, it := range items {
		out = append(out, vItem{it.Name, it.Flat, it.Cum})
	}
	return out, strings.Join(errs, "\n"), true
}

// VerifC10Web: a web request's report depends on its own URL only, never on
// the requests served before; requests leave the persistent options alone.
func VerifC10Web() {
	p := vC10Profile()
	// a numeric tag with two units: every report warns about it
	p.Sample[0].NumLabel = map[string][]int64{"bytes": {8}}
	p.Sample[0].NumUnit = map[string][]string{"bytes": {"kilobytes"}}
	copier := makeProfileCopier(p)
	ui, uerr := makeWebInterface(p, copier, &plugin.Options{UI: &vNullUI{}})
	if uerr != nil {
		vAssert(false, "C10.web.setup: makeWebInterface failed")
		return
	}
	nq := vBound("c10.queries", len(vC10Queries))
	a := vC10Queries[vChoice("queryA", nq)]
	b := vC10Queries[vChoice("queryB", nq)]
	var editB func(*config)
	if vBool("editB") {
		editB = func(cfg *config) { cfg.CallTree = true; cfg.Hide = "main" }
	}
	before := currentConfig()
	vFreeze(p, "loaded-profile")
	pristine := vSer(copier.newCopy())
	first, warn1, ok1 := vC10Request(ui, a, nil)
	// the request in between comes from any of the pages that build a report
	cmdB := [][]string{{"top"}, {"weblist", "main"}, {"peek", "work"}, {"disasm", "main"}}[vChoice("pageB", 4)]
	_, _, _ = vC10RequestCmd(ui, b, editB, cmdB)
	again, warn2, ok2 := vC10Request(ui, a, nil)
	vUnfreeze()
	vAssert(vStrEq(vSer(copier.newCopy()), pristine), "C10.web.copy: a copy handed out after the requests differs from one handed out before them")
	vReach("C10.web:done")
	vAssert(ok1 == ok2, "C10.web.outcome: the same request succeeds or fails depending on what was served before")
	if ok1 && ok2 {
		vAssert(vSameItems(first, again), "C10.web.result: the same request gives a different report after another request was served")
		vAssert(vStrEq(warn1, warn2), "C10.web.warnings: the warnings shown for a request depend on the requests served before")
		vObserve(len(first))
	}
	vAssert(currentConfig() == before, "C10.web.options: serving a request changed the persistent options")
}

// vNoWriter cannot open any output file.
type vNoWriter struct{}

func (vNoWriter) Open(name string) (io.WriteCloser, error) { return nil, errVerifNotFound }

// vScriptUI feeds a fixed script to the real interactive loop.
type vScriptUI struct {
	vNullUI
	lines []string
	next  int
}

func (u *vScriptUI) ReadLine(prompt string) (string, error) {
	if u.next >= len(u.lines) {
		return "", io.EOF
	}
	u.next++
	return u.lines[u.next-1], nil
}

// vC10Lines2: lines for the real loop. proto/raw emit the processed profile
// itself, so for them the processed profile is the command's output.
var vC10Lines2 = []string{
	"top",
	"proto",
	"top work",
	"raw",
	"tags",
	"top -leaf",
	"peek main",
	"traces",
	"top 1 -cum",
	"list main",
	"top work >/unwritable/out.txt",
}

var vC10Assign = []string{"", "focus=work", "nodecount=1", "granularity=lines", "hide=leaf"}

type vCmdResult struct {
	cfg   config
	items []vItem
	prof  []byte
	err   bool
}

// VerifC10Interactive drives the real interactive() loop with the script
// [assignment?] A B A and observes each command through the
// generateReportWrapper hook the loop provides for tests.
func VerifC10Interactive() {
	p := vC10Profile()
	nl := vBound("c10.ilines", len(vC10Lines2))
	na := vBound("c10.assign", len(vC10Assign))
	a := vC10Lines2[vChoice("lineA", nl)]
	b := vC10Lines2[vChoice("lineB", nl)]
	assign := vC10Assign[vChoice("assign", na)]
	var script []string
	if assign != "" {
		script = append(script, assign)
	}
	script = append(script, a, b, a)
	ui := &vScriptUI{lines: script}
	o := &plugin.Options{UI: ui, Writer: vNoWriter{}}
	var results []vCmdResult
	saved := generateReportWrapper
	generateReportWrapper = func(cp *profile.Profile, cmd []string, cfg config, o *plugin.Options) error {
		r := vCmdResult{cfg: cfg}
		_, rpt, err := generateRawReport(cp, cmd, cfg, o)
		if err == nil && cfg.Output != "" {
			// as generateReport: the report is built (the profile filtered) and then the output file cannot be opened
			_, err = o.Writer.Open(cfg.Output)
		}
		if err != nil {
			r.err = true
			results = append(results, r)
			return err
		}
		items, _ := report.TextItems(rpt)
		for _, it := range items {
			r.items = append(r.items, vItem{it.Name, it.Flat, it.Cum})
		}
		var buf bytes.Buffer
		cp.WriteUncompressed(&buf)
		r.prof = buf.Bytes()
		results = append(results, r)
		return nil
	}
	before := currentConfig()
	// (the loop serializes p, which rewrites p's own encoding scratch fields:
	// the loaded profile is compared by content, not frozen)
	var pre, post bytes.Buffer
	p.WriteUncompressed(&pre)
	err := interactive(p, o)
	p.WriteUncompressed(&post)
	generateReportWrapper = saved
	vAssert(vStrEq(string(pre.Bytes()), string(post.Bytes())), "C10.interactive.loaded: the loaded profile was changed by the session")
	vReach("C10.interactive:done")
	vAssert(err == nil, "C10.interactive.error: the session ended with an error")
	if len(results) != 3 {
		vAssert(false, "C10.interactive.count: not every command line of the script was executed once")
		setCurrentConfig(before)
		return
	}
	r0, r2 := results[0], results[2]
	vAssert(r0.cfg == r2.cfg, "C10.interactive.args: the options a command runs with depend on the command before it")
	vAssert(r0.err == r2.err, "C10.interactive.outcome: the same command succeeds or fails depending on what ran before")
	if !r0.err && !r2.err {
		vAssert(vSameItems(r0.items, r2.items), "C10.interactive.result: the same command gives a different report after another command ran")
		same := len(r0.prof) == len(r2.prof)
		if same {
			for i := range r0.prof {
				same = vAnd(same, r0.prof[i] == r2.prof[i])
			}
		}
		vAssert(same, "C10.interactive.profile: the profile a command emits (proto/raw) or reports on differs after another command ran")
		vObserve(len(r0.items))
	}
	// options: the assignment is in effect for every command and persists; command arguments do not persist
	after := currentConfig()
	want := before
	want.CompactLabels = true
	switch assign {
	case "focus=work":
		want.Focus = "work"
	case "nodecount=1":
		want.NodeCount = 1
	case "granularity=lines":
		want.Granularity = "lines"
	case "hide=leaf":
		want.Hide = "leaf"
	}
	vAssert(after == want, "C10.interactive.options: after the session the persistent options are not exactly the assignments made")
	if assign == "focus=work" && a == "top" {
		vAssert(r0.cfg.Focus == "work", "C10.interactive.assign: an option assignment is not in effect for the next command")
	}
	setCurrentConfig(before)
}

// VerifC10WebConcurrent: two web requests served at the same time (as the
// HTTP server does) each get the report and the warnings they get when served
// alone; no data race on the web interface's shared state.
func VerifC10WebConcurrent() {
	vRaceDetect()
	p := vC10Profile()
	p.Sample[0].NumLabel = map[string][]int64{"bytes": {8}}
	p.Sample[0].NumUnit = map[string][]string{"bytes": {"kilobytes"}}
	copier := makeProfileCopier(p)
	ui, uerr := makeWebInterface(p, copier, &plugin.Options{UI: &vNullUI{}})
	if uerr != nil {
		vAssert(false, "C10.webconc.setup: makeWebInterface failed")
		return
	}
	qs := []string{"", "f=nomatch", "h=leaf", "si=nosuchtype"}
	nq := vBound("c10.cqueries", len(qs))
	a := qs[vChoice("queryA", nq)]
	b := qs[vChoice("queryB", nq)]
	seqA, warnA, okA := vC10Request(ui, a, nil)
	seqB, warnB, okB := vC10Request(ui, b, nil)
	var wg sync.WaitGroup
	wg.Add(2)
	var ra, rb []vItem
	var wa, wb string
	var oa, ob bool
	go func() { defer wg.Done(); ra, wa, oa = vC10Request(ui, a, nil) }()
	go func() { defer wg.Done(); rb, wb, ob = vC10Request(ui, b, nil) }()
	wg.Wait()
	vAssert(oa == okA && ob == okB, "sched:C10.webconc.outcome: a request's outcome depends on a concurrent request")
	if oa && okA {
		vAssert(vSameItems(ra, seqA), "sched:C10.webconc.result: a request's report differs when another request is served concurrently")
		vAssert(vStrEq(wa, warnA), "sched:C10.webconc.warnings: the warnings shown for a request differ when another request is served concurrently")
	}
	if ob && okB {
		vAssert(vSameItems(rb, seqB), "sched:C10.webconc.result: a request's report differs when another request is served concurrently")
		vAssert(vStrEq(wb, warnB), "sched:C10.webconc.warnings: the warnings shown for a request differ when another request is served concurrently")
	}
}

func init() { vRegister("VerifC10OptionHistory", VerifC10OptionHistory) }

// VerifC10OptionHistory: a report depends on the option values in effect, not
// on the values an option had earlier in the session: the session
// [opt=v1; top; opt=v2; top] ends with the same report as the fresh session
// [opt=v2; top], for options that change names, paths, filters and counts.
func VerifC10OptionHistory() {
	opts := [][3]string{
		{"source_path", "/x/proj", "/y/src"},
		{"source_path", "/y/src", ""},
		{"trim_path", "/home/u", "/home"},
		{"focus", "main", "work"},
		{"hide", "leaf", "work"},
		{"nodecount", "1", "2"},
		{"granularity", "lines", "files"},
	}
	o := opts[vChoice("option", vBound("c10.hopts", len(opts)))]
	mkProfile := func() *profile.Profile {
		p := vC10Profile()
		p.Function[0].Filename = "/home/u/proj/m.go"
		p.Function[1].Filename = "/home/u/src/w.go"
		p.Function[2].Filename = "/home/u/proj/l.go"
		return p
	}
	session := func(script []string) ([]vItem, bool) {
		ui := &vScriptUI{lines: script}
		var last []vItem
		ok := false
		saved := generateReportWrapper
		generateReportWrapper = func(cp *profile.Profile, cmd []string, cfg config, o *plugin.Options) error {
			_, rpt, err := generateRawReport(cp, cmd, cfg, o)
			if err != nil {
				ok = false
				return err
			}
			items, _ := report.TextItems(rpt)
			last = nil
			for _, it := range items {
				last = append(last, vItem{it.Name, it.Flat, it.Cum})
			}
			ok = true
			return nil
		}
		before := currentConfig()
		interactive(mkProfile(), &plugin.Options{UI: ui, Writer: vNoWriter{}})
		generateReportWrapper = saved
		setCurrentConfig(before)
		return last, ok
	}
	base := "granularity=filefunctions"
	if o[0] == "granularity" {
		base = "nodecount=10"
	}
	hist, ok1 := session([]string{base, o[0] + "=" + o[1], "top", o[0] + "=" + o[2], "top"})
	fresh, ok2 := session([]string{base, o[0] + "=" + o[2], "top"})
	vReach("C10.opthistory:done")
	vAssert(ok1 == ok2, "C10.opthistory.outcome: a command's outcome depends on the values an option had earlier in the session")
	if ok1 && ok2 {
		vAssert(vSameItems(hist, fresh), "C10.opthistory.result: a report depends on the value an option had earlier in the session, not only on the value in effect")
	}
	// source_path: what the entries are called under the value in effect is known
	// (a file below a directory named like the last element of source_path is shown relative to it)
	if o[0] == "source_path" && ok1 {
		wantMain, wantWork := "main /home/u/proj/m.go", "work /home/u/src/w.go"
		if o[2] == "/y/src" {
			wantWork = "work w.go"
		}
		okNames := true
		for _, it := range hist {
			if strings.HasPrefix(it.name, "main ") && it.name != wantMain {
				okNames = false
			}
			if strings.HasPrefix(it.name, "work ") && it.name != wantWork {
				okNames = false
			}
		}
		vAssert(okNames, "C10.opthistory.names: file names are trimmed according to an earlier source_path, not the one in effect")
	}
}
