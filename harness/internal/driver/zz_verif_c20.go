//go:build verif

package driver

import (
	"sync"
)

func init() {
	vRegister("VerifC20Config", VerifC20Config)
	vRegister("VerifC20TempFiles", VerifC20TempFiles)
}

// VerifC20Config: options may be read while they are being set.
func VerifC20Config() {
	vRaceDetect()
	var wg sync.WaitGroup
	wg.Add(3)
	var seen config
	var e1, e2 error
	go func() {
		defer wg.Done()
		e1 = configure("nodecount", "7")
	}()
	go func() {
		defer wg.Done()
		e2 = configure("focus", "foo")
	}()
	go func() {
		defer wg.Done()
		seen = currentConfig()
	}()
	wg.Wait()
	final := currentConfig()
	vAssert(e1 == nil && e2 == nil, "C20.config.err: setting an option failed")
	vAssert(final.NodeCount == 7 && final.Focus == "foo", "sched:C20.config.lost: a concurrent option assignment was lost")
	vAssert((seen.NodeCount == 7 || seen.NodeCount == -1) && (seen.Focus == "foo" || seen.Focus == ""), "sched:C20.config.torn: a concurrent read saw a value that was never set")
	setCurrentConfig(defaultConfig())
}

// VerifC20TempFiles: temporary files created concurrently get distinct names and are not overwritten.
func VerifC20TempFiles() {
	vRaceDetect()
	vFSReset()
	dir := vFSPath("tmp")
	vFSPut(dir+"/keep", "x")
	var wg sync.WaitGroup
	wg.Add(2)
	names := make([]string, 2)
	errs := make([]error, 2)
	for i := 0; i < 2; i++ {
		go func(i int) {
			defer wg.Done()
			f, err := newTempFile(dir, "pprof.", ".pb.gz")
			errs[i] = err
			if err == nil {
				names[i] = f.Name()
				f.WriteString("data")
				f.Close()
				deferDeleteTempFile(f.Name())
			}
		}(i)
	}
	wg.Wait()
	vAssert(errs[0] == nil && errs[1] == nil, "C20.temp.err: creating a temporary file failed")
	vAssert(names[0] != names[1], "C20.temp.same: two concurrent requests got the same temporary file")
	for _, n := range names {
		c, ok := vFSGet(n)
		vAssert(ok && c == "data", "C20.temp.overwritten: a temporary file was overwritten or lost")
	}
	vAssert(cleanupTempFiles() == nil, "C20.temp.cleanup: cleanup failed")
	_, ok := vFSGet(names[0])
	vAssert(!ok, "C20.temp.leftover: cleanup left a registered temporary file behind")
}
