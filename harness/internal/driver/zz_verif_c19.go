//go:build verif

package driver

import (
	"net/url"
	"sync"
)

func init() {
	vRegister("VerifC19Crash", VerifC19Crash)
	vRegister("VerifC19Concurrent", VerifC19Concurrent)
	vRegister("VerifC19URL", VerifC19URL)
}

func vMustURL(s string) url.URL {
	u, err := url.Parse(s)
	if err != nil {
		panic(err)
	}
	return *u
}

// vConfigNames returns the names of the configurations stored in fname, or ok=false if the file does not parse.
func vConfigNames(fname string) (names []string, focus []string, ok bool) {
	s, err := readSettings(fname)
	if err != nil {
		return nil, nil, false
	}
	for _, c := range s.Configs {
		names = append(names, c.Name)
		focus = append(focus, c.Focus)
	}
	return names, focus, true
}

func vEqStrs(a, b []string) bool {
	if len(a) != len(b) {
		return false
	}
	for i := range a {
		if a[i] != b[i] {
			return false
		}
	}
	return true
}

// VerifC19Crash: if pprof is killed, or a write fails, at any point while a
// configuration is being saved or deleted, the settings file afterwards holds
// the complete previous or the complete new contents.
func VerifC19Crash() {
	vFSReset()
	fname := vFSPath("pprof/settings.json")
	// previous contents: one saved configuration, written by the real code - or
	// nothing at all (the very first save is the one that is interrupted)
	fresh := vChoice("fresh", 2) == 1
	if !fresh {
		if err := setConfig(fname, vMustURL("http://x/?config=old&f=oldfocus")); err != nil {
			vAssert(false, "C19.crash.setup: saving the initial configuration failed")
			return
		}
	}
	op := vChoice("op", 3)
	if fresh {
		vAssume(op == 0)
	}
	mode := vChoice("mode", 3) // 0: crash at a micro-step, 1: a write step fails (ENOSPC), 2: no fault
	switch mode {
	case 0:
		vFSCrashAt(vChoice("crashpoint", vBound("c19.steps", 8)))
	case 1:
		vFSFailures(true)
	}
	crashed := false
	var opErr error
	func() {
		defer func() {
			if r := recover(); r != nil {
				if !vIsCrash(r) {
					panic(r)
				}
				crashed = true
			}
		}()
		switch op {
		case 0:
			opErr = setConfig(fname, vMustURL("http://x/?config=new&f=newfocus"))
		case 1:
			opErr = setConfig(fname, vMustURL("http://x/?config=old&f=changed"))
		case 2:
			opErr = removeConfig(fname, "old")
		}
	}()
	vFSFailures(false)
	vFSCrashAt(-1)
	vReach("C19.crash:after")
	names, focus, ok := vConfigNames(fname)
	if mode == 2 {
		// faults cannot be injected natively: only the fault-free runs are compared with the compiled code
		vObserve(opErr == nil, ok, len(names))
	}
	what := "fault:C19.crash.torn"
	if mode == 1 {
		what = "fault:C19.writefail.torn"
	}
	if !ok {
		vAssert(false, what+": after an interrupted or failed save the settings file no longer parses (neither the previous nor the new contents)")
		return
	}
	oldState := vEqStrs(names, []string{"old"}) && vEqStrs(focus, []string{"oldfocus"})
	if fresh {
		oldState = len(names) == 0
	}
	var newState bool
	switch op {
	case 0:
		newState = vEqStrs(names, []string{"old", "new"}) && vEqStrs(focus, []string{"oldfocus", "newfocus"})
		if fresh {
			newState = vEqStrs(names, []string{"new"}) && vEqStrs(focus, []string{"newfocus"})
		}
	case 1:
		newState = vEqStrs(names, []string{"old"}) && vEqStrs(focus, []string{"changed"})
	case 2:
		newState = len(names) == 0
	}
	vAssert(oldState || newState, what+"2: after an interrupted or failed save the settings are neither the previous nor the new ones")
	if !crashed && opErr == nil {
		vAssert(newState, "C19.saved: a save that reported success is not in the file")
	}
	// history: whatever the interrupted or failed operation left behind (e.g. a
	// temporary file), the next operation - fault free - works and is durable
	switch vChoice("then", 3) {
	case 1:
		err := removeConfig(fname, "old")
		names2, _, ok2 := vConfigNames(fname)
		if !ok2 {
			vAssert(false, "fault:C19.then.torn: after an interrupted save, the next (fault-free) delete leaves a settings file that no longer parses")
			return
		}
		if err == nil {
			for _, n := range names2 {
				vAssert(n != "old", "fault:C19.then.lost: a delete after an interrupted save reported success but the entry is still there")
			}
		}
	case 2:
		err := setConfig(fname, vMustURL("http://x/?config=z&f=fz"))
		names2, _, ok2 := vConfigNames(fname)
		if !ok2 {
			vAssert(false, "fault:C19.then.torn: after an interrupted save, the next (fault-free) save leaves a settings file that no longer parses")
			return
		}
		has := false
		for _, n := range names2 {
			if n == "z" {
				has = true
			}
		}
		vAssert(err != nil || has, "fault:C19.then.lost: a save after an interrupted save reported success but is not in the file")
	}
}

// VerifC19Concurrent: two concurrent requests take effect as if performed one after another.
func VerifC19Concurrent() {
	vRaceDetect()
	vFSReset()
	vFSCoarse(true)
	fname := vFSPath("pprof/settings.json")
	if err := setConfig(fname, vMustURL("http://x/?config=old&f=oldfocus")); err != nil {
		vAssert(false, "C19.conc.setup: saving the initial configuration failed")
		return
	}
	pair := vChoice("pair", vBound("c19.pairs", 3))
	if pair == 2 { // two deletes: the file holds old, mid, last
		if err := setConfig(fname, vMustURL("http://x/?config=mid&f=fm")); err != nil {
			return
		}
		if err := setConfig(fname, vMustURL("http://x/?config=last&f=fl")); err != nil {
			return
		}
	}
	var wg sync.WaitGroup
	wg.Add(2)
	var e1, e2 error
	go func() {
		defer wg.Done()
		if pair == 2 {
			e1 = removeConfig(fname, "old")
			return
		}
		e1 = setConfig(fname, vMustURL("http://x/?config=a&f=fa"))
	}()
	go func() {
		defer wg.Done()
		switch pair {
		case 0:
			e2 = setConfig(fname, vMustURL("http://x/?config=b&f=fb"))
		case 1:
			e2 = removeConfig(fname, "old")
		default:
			e2 = removeConfig(fname, "mid")
		}
	}()
	wg.Wait()
	vReach("C19.conc:after")
	names, _, ok := vConfigNames(fname)
	if !ok {
		vAssert(false, "sched:C19.conc.torn: after two concurrent requests the settings file no longer parses")
		return
	}
	if e1 != nil || e2 != nil {
		return
	}
	var serial bool
	switch pair {
	case 0:
		serial = vEqStrs(names, []string{"old", "a", "b"}) || vEqStrs(names, []string{"old", "b", "a"})
	case 1:
		serial = vEqStrs(names, []string{"a"})
	default:
		serial = vEqStrs(names, []string{"last"})
	}
	vAssert(serial, "sched:C19.conc.lost-update: two concurrent requests both reported success but the result equals neither serial order")
}

// VerifC19URL: converting a configuration to a URL and back yields the same configuration.
func VerifC19URL() {
	cfg := defaultConfig()
	cfg.CallTree = vBool("calltree")
	cfg.RelativePercentages = vBool("rel")
	cfg.Trim = vBool("trim")
	cfg.Mean = vBool("mean")
	cfg.NoInlines = vBool("noinlines")
	cfg.DropNegative = vBool("dropneg")
	cfg.NodeCount = []int{-1, 0, 7, 1 << 40}[vChoice("nodecount", 4)]
	cfg.Focus = []string{"", "foo", "a b&c=d", "\xff"}[vChoice("focus", 4)]
	cfg.Sort = []string{"flat", "cum"}[vChoice("sort", 2)]
	cfg.Granularity = []string{"", "lines", "functions"}[vChoice("gran", 3)]
	cfg.NodeFraction = []float64{0.005, 0, 0.25}[vChoice("nf", 3)]
	u, _ := cfg.makeURL(vMustURL("http://x/ui/?f=stale&calltree=t"))
	back := defaultConfig()
	if err := back.applyURL(u.Query()); err != nil {
		vAssert(false, "C19.url.apply: a URL produced from a configuration is rejected")
		return
	}
	vAssert(back.CallTree == cfg.CallTree && back.RelativePercentages == cfg.RelativePercentages && back.Trim == cfg.Trim && back.Mean == cfg.Mean && back.NoInlines == cfg.NoInlines && back.DropNegative == cfg.DropNegative, "C19.url.bools: a boolean option changed in the URL round trip")
	vAssert(back.NodeCount == cfg.NodeCount && back.NodeFraction == cfg.NodeFraction, "C19.url.numbers: a numeric option changed in the URL round trip")
	vAssert(back.Focus == cfg.Focus && back.Sort == cfg.Sort && back.Granularity == cfg.Granularity, "C19.url.strings: a string option changed in the URL round trip")
	vObserve(u.RawQuery)
}

func init() { vRegister("VerifC19URLNumbers", VerifC19URLNumbers) }

// VerifC19URLNumbers: the numeric options survive the URL round trip bit for bit. Fractions are a concrete
// table (float formatting and parsing run on concrete values): short ones, ones that need all 17 significant
// digits, the smallest and largest magnitudes; the node count is symbolic.
func VerifC19URLNumbers() {
	fracs := []float64{0.005, 0, 0.25, 0.0123456789, 0.1 + 0.2, 1.0 / 3, 5e-324, 1.7976931348623157e308, 1e21, 123456789.125}
	cfg := defaultConfig()
	cfg.NodeFraction = fracs[vChoice("nf", len(fracs))]
	cfg.EdgeFraction = fracs[vChoice("ef", len(fracs))]
	cfg.NodeCount = []int{-1, 0, 7, 1 << 40, -1 << 63, 1<<63 - 1}[vChoice("nodecount", 6)]
	u, _ := cfg.makeURL(vMustURL("http://x/ui/?nf=9&ef=9&nodecount=3"))
	back := defaultConfig()
	if err := back.applyURL(u.Query()); err != nil {
		vAssert(false, "C19.url.apply: a URL produced from a configuration is rejected")
		return
	}
	vAssert(back.NodeFraction == cfg.NodeFraction, "C19.url.fraction: the node fraction changed in the URL round trip")
	vAssert(back.EdgeFraction == cfg.EdgeFraction, "C19.url.fraction: the edge fraction changed in the URL round trip")
	vAssert(back.NodeCount == cfg.NodeCount, "C19.url.numbers: a numeric option changed in the URL round trip")
	// and a second conversion gives the same URL
	u2, _ := back.makeURL(vMustURL("http://x/ui/"))
	u1, _ := cfg.makeURL(vMustURL("http://x/ui/"))
	vAssert(u1.RawQuery == u2.RawQuery, "C19.url.stable: converting the restored configuration gives a different URL")
	vObserve(u.RawQuery)
}

func init() { vRegister("VerifC19URLStrings", VerifC19URLStrings) }

// VerifC19URLStrings: string options whose text happens to spell a boolean,
// a number or a URL parameter name survive the URL round trip unchanged.
func VerifC19URLStrings() {
	pool := []string{"true", "false", "t", "f", "0", "1", "yes", "", "TRUE", "f=x"}
	cfg := defaultConfig()
	cfg.Focus = pool[vChoice("focus", len(pool))]
	cfg.TagFocus = pool[vChoice("tagfocus", len(pool))]
	cfg.Hide = pool[vChoice("hide", len(pool))]
	cfg.CallTree = vBool("calltree")
	u, _ := cfg.makeURL(vMustURL("http://x/ui/"))
	back := defaultConfig()
	if err := back.applyURL(u.Query()); err != nil {
		vAssert(false, "C19.url.apply: a URL produced from a configuration is rejected")
		return
	}
	vAssert(back.Focus == cfg.Focus, "C19.url.strings: a string option changed in the URL round trip")
	vAssert(back.TagFocus == cfg.TagFocus, "C19.url.strings: a string option changed in the URL round trip")
	vAssert(back.Hide == cfg.Hide, "C19.url.strings: a string option changed in the URL round trip")
	vAssert(back.CallTree == cfg.CallTree, "C19.url.bools: a boolean option changed in the URL round trip")
	vObserve(u.RawQuery)
}

func init() { vRegister("VerifC19Resave", VerifC19Resave) }

// VerifC19Resave: saving a configuration under an existing name stores the
// option values in effect now - whichever option changed since the first
// save, also the saved options that have no URL parameter (tagroot, tagleaf).
func VerifC19Resave() {
	vFSReset()
	fname := vFSPath("pprof/settings.json")
	before := currentConfig()
	u := vMustURL("http://x/?config=c&f=main")
	if err := setConfig(fname, u); err != nil {
		vAssert(false, "C19.resave.setup: the first save failed")
		setCurrentConfig(before)
		return
	}
	opts := [][2]string{{"tagroot", "k"}, {"tagleaf", "j"}, {"hide", "leaf"}, {"nodecount", "7"}, {"call_tree", "true"}, {"granularity", "lines"}, {"sort", "cum"}}
	o := opts[vChoice("option", len(opts))]
	if err := configure(o[0], o[1]); err != nil {
		vAssert(false, "C19.resave.configure: setting the option failed")
		setCurrentConfig(before)
		return
	}
	want := currentConfig()
	want.Focus = "main"
	err := setConfig(fname, u)
	s, rerr := readSettings(fname)
	setCurrentConfig(before)
	vReach("C19.resave:done")
	if err != nil || rerr != nil || len(s.Configs) != 1 {
		vAssert(false, "C19.resave.failed: re-saving a configuration failed or changed the number of entries")
		return
	}
	vAssert(s.Configs[0].Name == "c" && s.Configs[0].config == want, "C19.resave.stale: a configuration saved again under the same name does not hold the option values in effect at the second save")
}
