//go:build verif

package driver

import (
	"errors"
	"io"
	"strconv"
	"sync"

	"github.com/google/pprof/internal/plugin"
	"github.com/google/pprof/profile"
)

func init() {
	vRegister("VerifC09TagRange", VerifC09TagRange)
	vRegister("VerifC09LocateBinaries", VerifC09LocateBinaries)
	vRegister("VerifC06TagRange", VerifC06TagRange)
	vRegister("VerifC09CommandLine", VerifC09CommandLine)
}

// vDigits returns a string of n symbolic decimal digits.
func vDigits(tag string, n int) string {
	b := make([]byte, n)
	for i := range b {
		d := vByte(tag + strconv.Itoa(i))
		vAssume(d >= '0')
		vAssume(d <= '9')
		b[i] = d
	}
	return string(b)
}

// VerifC09TagRange: tagfocus/tagignore range expressions of every form with
// arbitrary digit strings never crash; they are a range or "not a range".
func VerifC09TagRange() {
	lens := []int{1, 20, 19, 3}
	n1 := lens[vChoice("len1", vBound("c09.lens", len(lens)))]
	sign := []string{"", "-", "+"}[vChoice("sign", vBound("c09.signs", 3))]
	unit := []string{"", "kb", "s"}[vChoice("unit", vBound("c09.units", 3))]
	a := sign + vDigits("a", n1) + unit
	var filter string
	switch vChoice("form", 4) {
	case 0:
		filter = a
	case 1:
		filter = a + ":"
	case 2:
		filter = ":" + a
	case 3:
		n2 := lens[vChoice("len2", vBound("c09.lens", len(lens)))]
		filter = a + ":" + vDigits("b", n2) + unit
	}
	f := parseTagFilterRange(filter)
	vReach("C09.tagrange:returned")
	if f != nil {
		// the returned predicate must be callable
		probes := []int64{0, -1, 1 << 40, 9223372036854775807, -9223372036854775808}
		r := f(probes[vChoice("probe", len(probes))], unit)
		vObserve(true, r)
	} else {
		vObserve(false)
	}
}

// vFailObjTool: no binary can be opened (every candidate path is tried).
type vFailObjTool struct{ opened int }

func (t *vFailObjTool) Open(file string, start, limit, offset uint64, relocationSymbol string) (plugin.ObjFile, error) {
	t.opened++
	return nil, errVerifNotFound
}

func (t *vFailObjTool) Disasm(file string, start, end uint64, intelSyntax bool) ([]plugin.Inst, error) {
	return nil, errVerifNotFound
}

var errVerifNotFound = errors.New("not found")

// vNullUI counts error lines; like the real UI it may be called from several goroutines.
type vNullUI struct {
	mu   sync.Mutex
	errs int
}

func (u *vNullUI) ReadLine(prompt string) (string, error)       { return "", io.EOF }
func (u *vNullUI) Print(args ...interface{})                    {}
func (u *vNullUI) PrintErr(args ...interface{}) {
	u.mu.Lock()
	u.errs++
	u.mu.Unlock()
}
func (u *vNullUI) IsTerminal() bool                             { return false }
func (u *vNullUI) WantBrowser() bool                            { return false }
func (u *vNullUI) SetAutoComplete(complete func(string) string) {}

// VerifC09LocateBinaries: any build id / file name length, any number of
// mappings and locations (also none), with and without the executable /
// build-id override of the command line.
func VerifC09LocateBinaries() {
	ids := []string{"", "a", "ab", "abc", "abcdef0123"}
	files := []string{"", "f", "/bin/prog", "C:x"}
	p := &profile.Profile{}
	shape := vChoice("shape", 4) // 0: one mapping; 1: no mapping, no location; 2: no mapping, one location; 3: two mappings
	var m *profile.Mapping
	if shape == 0 || shape == 3 {
		m = &profile.Mapping{ID: 1, BuildID: ids[vChoice("buildid", len(ids))], File: files[vChoice("file", len(files))], Start: vUint64("start"), Limit: vUint64("limit")}
		p.Mapping = []*profile.Mapping{m}
		if shape == 3 {
			p.Mapping = append(p.Mapping, &profile.Mapping{ID: 2, File: "lib.so"})
		}
	}
	if shape != 1 {
		p.Location = []*profile.Location{{ID: 1, Mapping: m, Address: 0x10}}
		p.Sample = []*profile.Sample{{Location: p.Location, Value: []int64{1}}}
	} else {
		p.Sample = []*profile.Sample{{Value: []int64{1}}}
	}
	p.SampleType = []*profile.ValueType{{Type: "s", Unit: "c"}}
	src := &source{}
	switch vChoice("override", 4) {
	case 1:
		src.ExecName = "/bin/override"
	case 2:
		src.BuildID = "feedbeef"
	case 3:
		src.ExecName, src.BuildID = "/bin/override", "feedbeef"
	}
	locateBinaries(p, src, &vFailObjTool{}, &vNullUI{})
	vReach("C09.locate:returned")
	vAssert(p.CheckValid() == nil, "C09.locate.valid: the profile is not valid after locating binaries")
	if m != nil {
		vObserve(m.File)
	}
	vObserve(len(p.Mapping))
}

// VerifC06TagRange (property C06): a numeric range filter keeps exactly the
// values inside the range, bounds included, after unit conversion.
func VerifC06TagRange() {
	nd := 1 + vChoice("digits", 3)
	lo := vDigits("lo", nd)
	unit := []string{"", "kb"}[vChoice("unit", 2)]
	form := vChoice("form", 4)
	var filter string
	var hi string
	switch form {
	case 0:
		filter = lo + unit
	case 1:
		filter = lo + unit + ":"
	case 2:
		filter = ":" + lo + unit
	case 3:
		hi = vDigits("hi", nd)
		filter = lo + unit + ":" + hi + unit
	}
	f := parseTagFilterRange(filter)
	if f == nil {
		vAssert(false, "C06.range.nil: a well-formed numeric range was not recognised")
		return
	}
	// the reference reads the digits independently
	num := func(s string) int64 {
		var n int64
		for i := 0; i < len(s); i++ {
			n = n*10 + int64(s[i]-'0')
		}
		return n
	}
	a := num(lo)
	scale := int64(1)
	if unit == "kb" {
		scale = 1024
	}
	v := vInt64("value") // in bytes when a unit is used
	vAssume(v > -(1 << 30))
	vAssume(v < 1<<30)
	probeUnit := ""
	if unit == "kb" {
		probeUnit = "b"
	}
	got := f(v, probeUnit)
	var want bool
	switch form {
	case 0:
		want = v == a*scale
	case 1:
		want = v >= a*scale
	case 2:
		want = v <= a*scale
	case 3:
		b := num(hi)
		want = vAnd(v >= a*scale, v <= b*scale)
	}
	vObserve(got)
	vAssert(got == want, "C06.range.bounds: a numeric range filter does not keep exactly the values inside the range (bounds included)")
}

// VerifC09CommandLine: no interactive line (tokens from a command grammar plus
// noise, as strings.Fields produces them) crashes the command parser.
func VerifC09CommandLine() {
	cmds := []string{"top", "top10", "tree", "list", "peek", "tags", "foo", "nodecount", "top0x"}
	toks := []string{">", ">out", "10", "-3", "-cum", "--cum", "-", "main", "-runtime", "99999999999", ">", "|"}
	n := vChoice("ntok", vBound("c09.maxtok", 3)+1)
	input := []string{cmds[vChoice("cmd", len(cmds))]}
	for i := 0; i < n; i++ {
		input = append(input, toks[vChoice("tok"+strconv.Itoa(i), len(toks))])
	}
	cmd, cfg, err := parseCommandLine(input)
	vReach("C09.cmdline:returned")
	if err == nil {
		vAssert(len(cmd) >= 1, "C09.cmdline.empty: a command line was accepted without a command")
		vObserve(cmd[0], cfg.NodeCount, cfg.Output)
	} else {
		vObserve(false)
	}
	// option assignments persist, command arguments do not
	vAssert(currentConfig().Output == "" && currentConfig().Focus == "", "C09.cmdline.leak: arguments of a command line changed the persistent options")
}
