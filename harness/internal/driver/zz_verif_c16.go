//go:build verif

package driver

import (
	"strconv"
	"time"

	"github.com/google/pprof/profile"
)

func init() {
	vRegister("VerifC16Fetch", VerifC16Fetch)
	vRegister("VerifC16Chunks", VerifC16Chunks)
}

// vFetcher answers each source according to its fate: 0 a valid one-sample
// profile (symbolic value, a stack of its own), 1 an error, 2 an invalid profile.
type vFetcher struct {
	fate  map[string]int
	value map[string]int64
}

func (f *vFetcher) Fetch(src string, duration, timeout time.Duration) (*profile.Profile, string, error) {
	vYield() // the fetch takes time: other fetches may complete first
	switch f.fate[src] {
	case 1:
		return nil, "", errVerifNotFound
	case 2:
		// a location with id 0 is not valid
		l := &profile.Location{ID: 0}
		return &profile.Profile{SampleType: []*profile.ValueType{{Type: "samples", Unit: "count"}}, Location: []*profile.Location{l},
			Sample: []*profile.Sample{{Location: []*profile.Location{l}, Value: []int64{1}}}}, "", nil
	}
	fn := &profile.Function{ID: 1, Name: "f" + src}
	l := &profile.Location{ID: 1, Address: 0x10, Line: []profile.Line{{Function: fn}}}
	p := &profile.Profile{
		SampleType: []*profile.ValueType{{Type: "samples", Unit: "count"}},
		PeriodType: &profile.ValueType{Type: "cpu", Unit: "ns"},
		Function:   []*profile.Function{fn}, Location: []*profile.Location{l},
		Sample: []*profile.Sample{{Location: []*profile.Location{l}, Value: []int64{f.value[src]}}},
	}
	return p, "", nil
}

// VerifC16Fetch: whatever subset of sources fails and in whatever order the
// fetches complete, the result is the merge of the successful ones in
// command-line order, with one error line per failure.
func VerifC16Fetch() {
	vRaceDetect()
	n := 1 + vChoice("nsrc", vBound("c16.maxsrc", 3))
	nb := vChoice("nbase", vBound("c16.maxbase", 2))
	f := &vFetcher{fate: map[string]int{}, value: map[string]int64{}}
	mk := func(prefix string, k int) []profileSource {
		var out []profileSource
		for i := 0; i < k; i++ {
			name := prefix + strconv.Itoa(i)
			f.fate[name] = vChoice("fate."+name, 3)
			v := vInt64("v." + name)
			vAssume(v > 0)
			vAssume(v < 1<<40)
			f.value[name] = v
			out = append(out, profileSource{addr: name, source: &source{}})
		}
		return out
	}
	sources := mk("s", n)
	bases := mk("b", nb)
	ui := &vNullUI{}
	p, pbase, _, _, _, err := grabSourcesAndBases(sources, bases, f, &vFailObjTool{}, ui, nil)
	vReach("C16.fetch:done")

	check := func(prefix string, k int, got *profile.Profile) (ok int) {
		var want []string
		var wantVals []int64
		for i := 0; i < k; i++ {
			name := prefix + strconv.Itoa(i)
			if f.fate[name] == 0 {
				want = append(want, "f"+name)
				wantVals = append(wantVals, f.value[name])
			}
		}
		if got == nil {
			return len(want)
		}
		vAssert(len(got.Sample) == len(want), "C16.fetch.count: the result does not hold exactly the samples of the sources that could be fetched")
		for i := 0; i < len(want) && i < len(got.Sample); i++ {
			s := got.Sample[i]
			vAssert(len(s.Location) == 1 && len(s.Location[0].Line) == 1 && s.Location[0].Line[0].Function.Name == want[i], "C16.fetch.order: successful sources are not combined in command-line order")
			vAssert(s.Value[0] == wantVals[i], "C16.fetch.value: a fetched profile's value was changed")
		}
		return len(want)
	}
	failed := 0
	for _, v := range f.fate {
		if v != 0 {
			failed++
		}
	}
	okSrc := 0
	for i := 0; i < n; i++ {
		if f.fate["s"+strconv.Itoa(i)] == 0 {
			okSrc++
		}
	}
	okBase := 0
	for i := 0; i < nb; i++ {
		if f.fate["b"+strconv.Itoa(i)] == 0 {
			okBase++
		}
	}
	shouldFail := okSrc == 0 || (nb > 0 && okBase == 0)
	vAssert((err != nil) == shouldFail, "C16.fetch.failure: fetching fails although a source (and a base, if requested) could be obtained, or succeeds although none could")
	if err == nil {
		check("s", n, p)
		if nb > 0 {
			check("b", nb, pbase)
		} else {
			vAssert(pbase == nil, "C16.fetch.nobase: a base profile appeared although none was requested")
		}
		partial := 0
		if okSrc != n {
			partial++
		}
		if nb > 0 && okBase != nb {
			partial++
		}
		vAssert(ui.errs == failed+partial, "C16.fetch.errors: not exactly one error line per failed source (plus one summary line per incomplete group)")
	}
	vObserve(err == nil, ui.errs)
}

// VerifC16Chunks: source lists across the 128-source chunk boundary, failing
// positions around the boundary, two fixed completion orders plus the race monitor.
func VerifC16Chunks() {
	vRaceDetect()
	sizes := []int{129, 127, 128, 257}
	n := sizes[vChoice("n", vBound("c16.sizes", 2))]
	if vChoice("order", 2) == 1 {
		vSchedMode("last")
	} else {
		vSchedMode("first")
	}
	f := &vFetcher{fate: map[string]int{}, value: map[string]int64{}}
	failing := map[int]bool{}
	for _, pos := range []int{0, 126, 127, 128, n - 1} {
		if pos < n && vChoice("fail"+strconv.Itoa(pos), 2) == 1 {
			failing[pos] = true
		}
	}
	var sources []profileSource
	var total int64
	okCount := 0
	for i := 0; i < n; i++ {
		name := "s" + strconv.Itoa(i)
		f.value[name] = int64(i + 1)
		if failing[i] {
			f.fate[name] = 1
		} else {
			total += int64(i + 1)
			okCount++
		}
		sources = append(sources, profileSource{addr: name, source: &source{}})
	}
	// one symbolic value to keep the arithmetic honest
	v := vInt64("v")
	vAssume(v > 0)
	vAssume(v < 1<<40)
	if !failing[1] && n > 1 {
		total += v - f.value["s1"]
		f.value["s1"] = v
	}
	ui := &vNullUI{}
	p, _, _, _, _, err := grabSourcesAndBases(sources, nil, f, &vFailObjTool{}, ui, nil)
	vReach("C16.chunks:done")
	if err != nil {
		vAssert(false, "C16.chunks.err: fetching failed although sources could be obtained")
		return
	}
	if p == nil {
		vAssert(false, "C16.chunks.nil: no profile and no error although sources could be obtained")
		return
	}
	vAssert(len(p.Sample) == okCount, "C16.chunks.count: the result does not hold one sample per fetched source")
	var sum int64
	prev := -1
	inOrder := true
	for _, s := range p.Sample {
		sum += s.Value[0]
		name := s.Location[0].Line[0].Function.Name // "fs<i>"
		idx, _ := strconv.Atoi(name[2:])
		if idx <= prev {
			inOrder = false
		}
		prev = idx
	}
	vAssert(sum == total, "C16.chunks.total: merged total is not the sum of the fetched sources")
	vAssert(inOrder, "C16.chunks.order: sources are not combined in command-line order across chunks")
	nfail := len(failing)
	extra := 0
	if nfail > 0 {
		extra = 1
	}
	vAssert(ui.errs == nfail+extra, "C16.chunks.errors: not one error line per failed source")
	vObserve(len(p.Sample), ui.errs)
}
