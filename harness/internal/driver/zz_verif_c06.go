//go:build verif

package driver

import (
	"regexp"

	"github.com/google/pprof/internal/plugin"
	"github.com/google/pprof/profile"
)

func init() {
	vRegister("VerifC06ApplyFocus", VerifC06ApplyFocus)
}

type vTagFilter struct {
	expr string
	ref  func(l map[string][]string, n map[string][]int64) bool
}

func vHas(l map[string][]string, k, v string) bool {
	for _, x := range l[k] {
		if x == v {
			return true
		}
	}
	return false
}

// tag filters with their meaning written out by hand (the reference does not use regexps)
var vTagFilters = []vTagFilter{
	{"", nil},
	{"k=a", func(l map[string][]string, n map[string][]int64) bool { return vHas(l, "k", "a") }},
	{"k=b", func(l map[string][]string, n map[string][]int64) bool { return vHas(l, "k", "b") }},
	{"j:a", func(l map[string][]string, n map[string][]int64) bool { return vHas(l, "j", "a") }},
	{"bytes=10b:", func(l map[string][]string, n map[string][]int64) bool {
		for _, v := range n["bytes"] {
			if v >= 10 {
				return true
			}
		}
		return false
	}},
	{"k=a,b", func(l map[string][]string, n map[string][]int64) bool { return vHas(l, "k", "a") || vHas(l, "k", "b") }},
}

var vTagNames = []struct {
	expr string
	ref  func(key string) bool
}{
	{"", nil},
	{"^k$", func(k string) bool { return k == "k" }},
	{"bytes", func(k string) bool { return k == "bytes" }},
	{"^j$|^k$", func(k string) bool { return k == "j" || k == "k" }},
}

// VerifC06ApplyFocus: applyFocus with tagfocus, tagignore, tagshow and taghide
// together: a sample is kept iff its (original) tags satisfy tagfocus and do
// not satisfy tagignore; tagshow/taghide only decide which tags stay on the
// kept samples. So tagfocus=R and tagignore=R still partition the profile
// whatever tags are hidden.
func VerifC06ApplyFocus() {
	m := &profile.Mapping{ID: 1, Start: 0x1000, Limit: 0x9000, File: "bin", HasFunctions: true}
	var fs []*profile.Function
	var ls []*profile.Location
	for i, n := range []string{"f0", "f1", "f2"} {
		f := &profile.Function{ID: uint64(i + 1), Name: n, SystemName: n, Filename: n + ".go"}
		fs = append(fs, f)
		ls = append(ls, &profile.Location{ID: uint64(i + 1), Mapping: m, Address: uint64(0x1000 + 16*i), Line: []profile.Line{{Function: f, Line: 1}}})
	}
	type orig struct {
		l map[string][]string
		n map[string][]int64
	}
	origs := []orig{
		{map[string][]string{"k": {"a"}}, map[string][]int64{"bytes": {16}}},
		{map[string][]string{"k": {"b"}, "j": {"a"}}, nil},
		{nil, map[string][]int64{"bytes": {5}}},
	}
	p := &profile.Profile{
		SampleType: []*profile.ValueType{{Type: "samples", Unit: "count"}}, PeriodType: &profile.ValueType{Type: "cpu", Unit: "ns"}, Period: 1,
		Mapping: []*profile.Mapping{m}, Function: fs, Location: ls,
	}
	for i, o := range origs {
		w := vInt64("w" + string(rune('0'+i)))
		vAssume(w >= 1)
		vAssume(w <= 1000)
		s := &profile.Sample{Location: []*profile.Location{ls[i]}, Value: []int64{w}}
		if o.l != nil {
			s.Label = map[string][]string{}
			for k, v := range o.l {
				s.Label[k] = append([]string{}, v...)
			}
		}
		if o.n != nil {
			s.NumLabel = map[string][]int64{}
			s.NumUnit = map[string][]string{}
			for k, v := range o.n {
				s.NumLabel[k] = append([]int64{}, v...)
				s.NumUnit[k] = []string{"bytes"}
			}
		}
		p.Sample = append(p.Sample, s)
	}
	nf := vBound("c06.tagfilters", len(vTagFilters))
	nn := vBound("c06.tagnames", len(vTagNames))
	tf := vTagFilters[vChoice("tagfocus", nf)]
	ti := vTagFilters[vChoice("tagignore", nf)]
	ts := vTagNames[vChoice("tagshow", nn)]
	th := vTagNames[vChoice("taghide", nn)]
	cfg := config{TagFocus: tf.expr, TagIgnore: ti.expr, TagShow: ts.expr, TagHide: th.expr}
	units, _ := p.NumLabelUnits()
	err := applyFocus(p, units, cfg, &vNullUI{})
	vReach("C06.applyfocus:returned")
	if err != nil {
		vAssert(false, "C06.applyfocus.error: valid tag filters were rejected")
		return
	}
	var kept []int
	for i, o := range origs {
		keep := true
		if tf.ref != nil && !tf.ref(o.l, o.n) {
			keep = false
		}
		if ti.ref != nil && ti.ref(o.l, o.n) {
			keep = false
		}
		if keep {
			kept = append(kept, i)
		}
	}
	if len(p.Sample) != len(kept) {
		vAssert(false, "C06.applyfocus.kept: the samples kept are not those whose tags satisfy tagfocus and do not satisfy tagignore")
		return
	}
	for j, i := range kept {
		s := p.Sample[j]
		if len(s.Location) != 1 || s.Location[0] != ls[i] {
			vAssert(false, "C06.applyfocus.kept: the samples kept are not those whose tags satisfy tagfocus and do not satisfy tagignore")
			return
		}
		// tags that stay: shown (if tagshow given) and not hidden
		stay := func(k string) bool {
			if ts.ref != nil && !ts.ref(k) {
				return false
			}
			if th.ref != nil && th.ref(k) {
				return false
			}
			return true
		}
		ok := true
		for k, v := range origs[i].l {
			got, present := s.Label[k]
			if stay(k) {
				ok = ok && present && len(got) == len(v)
			} else {
				ok = ok && !present
			}
		}
		for k := range origs[i].n {
			_, present := s.NumLabel[k]
			ok = ok && present == stay(k)
		}
		vAssert(ok, "C06.applyfocus.tags: the tags left on a kept sample are not exactly those selected by tagshow/taghide")
	}
	vObserve(len(p.Sample))
}

func init() { vRegister("VerifC11ApplyPruneFrom", VerifC11ApplyPruneFrom) }

// VerifC11ApplyPruneFrom (property C11): the prune_from option removes, through
// applyFocus, exactly what Profile.PruneFrom removes for the same expression -
// for names that need simplification before they match (C++ signatures,
// templates, a leading dot) as well.
func VerifC11ApplyPruneFrom() {
	names := []string{"worker(int, int)", ".worker", "ns::worker<T>(T*)", "worker", "other"}
	exprs := []string{"^worker$", "^worker", "worker", "^ns::worker$", "nomatch"}
	mid := names[vChoice("name", vBound("c11.names", len(names)))]
	expr := exprs[vChoice("expr", vBound("c11.exprs", len(exprs)))]
	build := func() *profile.Profile {
		m := &profile.Mapping{ID: 1, Start: 0x1000, Limit: 0x9000, File: "bin", HasFunctions: true}
		var fs []*profile.Function
		var ls []*profile.Location
		for i, n := range []string{"main", mid, "leaf1", "leaf2"} {
			f := &profile.Function{ID: uint64(i + 1), Name: n, SystemName: n, Filename: "f.cc"}
			fs = append(fs, f)
			ls = append(ls, &profile.Location{ID: uint64(i + 1), Mapping: m, Address: uint64(0x1000 + 16*i), Line: []profile.Line{{Function: f, Line: 1}}})
		}
		return &profile.Profile{
			SampleType: []*profile.ValueType{{Type: "samples", Unit: "count"}}, PeriodType: &profile.ValueType{Type: "cpu", Unit: "ns"}, Period: 1,
			Mapping: []*profile.Mapping{m}, Function: fs, Location: ls,
			Sample: []*profile.Sample{
				{Location: []*profile.Location{ls[3], ls[2], ls[1], ls[0]}, Value: []int64{1}},
				{Location: []*profile.Location{ls[2], ls[0]}, Value: []int64{2}},
			},
		}
	}
	p, ref := build(), build()
	err := applyFocus(p, nil, config{PruneFrom: expr}, &vNullUI{})
	vReach("C11.applyprunefrom:returned")
	if err != nil {
		vAssert(false, "C11.applyprunefrom.error: a valid prune_from expression was rejected")
		return
	}
	ref.PruneFrom(regexp.MustCompile(expr))
	same := len(p.Sample) == len(ref.Sample)
	if same {
		for i := range p.Sample {
			a, b := p.Sample[i].Location, ref.Sample[i].Location
			if len(a) != len(b) {
				same = false
				break
			}
			for j := range a {
				if a[j].ID != b[j].ID || len(a[j].Line) != len(b[j].Line) {
					same = false
				}
			}
		}
	}
	vAssert(same, "C11.applyprunefrom.differs: the prune_from option does not remove exactly the frames Profile.PruneFrom removes for the expression")
	vObserve(len(p.Sample[0].Location))
}

func init() { vRegister("VerifC09BadExpressions", VerifC09BadExpressions) }

// VerifC09BadExpressions (property C09): a malformed expression in any filter
// option or command argument is reported as an error - the first time and
// every later time it is used in the session - and never crashes.
func VerifC09BadExpressions() {
	exprs := []string{"(", "[a", "a(b", "**", "ok"}
	ex := exprs[vChoice("expr", len(exprs))]
	build := func() *profile.Profile {
		m := &profile.Mapping{ID: 1, Start: 0x1000, Limit: 0x9000, File: "bin", HasFunctions: true}
		f := &profile.Function{ID: 1, Name: "ok", SystemName: "ok", Filename: "f.go"}
		l := &profile.Location{ID: 1, Mapping: m, Address: 0x1000, Line: []profile.Line{{Function: f, Line: 1}}}
		return &profile.Profile{
			SampleType: []*profile.ValueType{{Type: "samples", Unit: "count"}}, PeriodType: &profile.ValueType{Type: "cpu", Unit: "ns"}, Period: 1,
			Mapping: []*profile.Mapping{m}, Function: []*profile.Function{f}, Location: []*profile.Location{l},
			Sample: []*profile.Sample{{Location: []*profile.Location{l}, Value: []int64{1}, Label: map[string][]string{"k": {"ok"}}}},
		}
	}
	opt := vChoice("option", 12)
	once := func() bool {
		cfg := config{}
		switch opt {
		case 0:
			cfg.Focus = ex
		case 1:
			cfg.Ignore = ex
		case 2:
			cfg.Hide = ex
		case 3:
			cfg.Show = ex
		case 4:
			cfg.ShowFrom = ex
		case 5:
			cfg.PruneFrom = ex
		case 6:
			cfg.TagFocus = ex
		case 7:
			cfg.TagIgnore = "k=" + ex
		case 8:
			cfg.TagShow = ex
		case 9:
			cfg.TagHide = ex
		default:
			// a command argument: peek <expr> / list <expr>
			cmd := []string{"peek", ex}
			if opt == 11 {
				cmd = []string{"list", ex}
			}
			c := currentConfig()
			_, _, err := generateRawReport(build(), cmd, c, &plugin.Options{UI: &vNullUI{}})
			return err != nil
		}
		return applyFocus(build(), nil, cfg, &vNullUI{}) != nil
	}
	first := once()
	second := once()
	third := once()
	vReach("C09.badexpr:returned")
	vAssert(first == (ex != "ok"), "C09.badexpr.first: a malformed expression was accepted (or a well-formed one rejected)")
	vAssert(second == first && third == first, "C09.badexpr.again: the same expression is treated differently when it is used again in the session")
}
