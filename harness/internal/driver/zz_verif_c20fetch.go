//go:build verif

package driver

import "strconv"

func init() { vRegister("VerifC20FetchShared", VerifC20FetchShared) }

// VerifC20FetchShared: several sources fetched in parallel with the
// executable name / build id given on the command line (one *source shared
// by all of them, as in the tool), profiles without mappings: every fetched
// profile gets a mapping of its own that carries the override, no race on
// anything the fetches share, the result is that of fetching one at a time.
func VerifC20FetchShared() {
	vRaceDetect()
	n := 2 + vChoice("nsrc", vBound("c20.sharedsrc", 2))
	if vChoice("order", 2) == 1 {
		vSchedMode("last")
	} else {
		vSchedMode("first")
	}
	shared := &source{}
	switch vChoice("override", 3) {
	case 0:
		shared.ExecName = "exe"
	case 1:
		shared.BuildID = "abcd"
	case 2:
		shared.ExecName, shared.BuildID = "exe", "abcd"
	}
	f := &vFetcher{fate: map[string]int{}, value: map[string]int64{}}
	var sources []profileSource
	var total int64
	for i := 0; i < n; i++ {
		name := "s" + strconv.Itoa(i)
		v := vInt64("v." + name)
		vAssume(v > 0)
		vAssume(v < 1<<40)
		f.value[name] = v
		total += v
		sources = append(sources, profileSource{addr: name, source: shared})
	}
	ui := &vNullUI{}
	p, _, _, _, _, err := grabSourcesAndBases(sources, nil, f, &vFailObjTool{}, ui, nil)
	vReach("C20.fetchshared:done")
	if err != nil || p == nil {
		vAssert(false, "C20.fetchshared.err: fetching failed although every source could be obtained")
		return
	}
	vAssert(len(p.Sample) == n, "C20.fetchshared.count: the result does not hold one sample per source")
	var sum int64
	for _, s := range p.Sample {
		sum += s.Value[0]
	}
	vAssert(sum == total, "C20.fetchshared.total: merged total is not the sum of the sources")
	okMap := len(p.Mapping) >= 1
	for _, m := range p.Mapping {
		if shared.ExecName != "" && m.File != "exe" {
			okMap = false
		}
		if shared.BuildID != "" && m.BuildID != "abcd" {
			okMap = false
		}
	}
	vAssert(okMap, "C20.fetchshared.mapping: the merged profile's mapping does not carry the executable name / build id given on the command line")
	vObserve(len(p.Mapping), ui.errs)
}
