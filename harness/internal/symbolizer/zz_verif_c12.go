//go:build verif

package symbolizer

import (
	"errors"
	"io"
	"regexp"
	"strconv"

	"github.com/google/pprof/internal/plugin"
	"github.com/google/pprof/profile"
	"github.com/ianlancetaylor/demangle"
)

func init() {
	vRegister("VerifC12Local", VerifC12Local)
	vRegister("VerifC12Demangle", VerifC12Demangle)
	vRegister("VerifC12DemangleProfile", VerifC12DemangleProfile)
}

var errVerif = errors.New("no such file")

type vUI struct{ errs int }

func (u *vUI) ReadLine(prompt string) (string, error)       { return "", io.EOF }
func (u *vUI) Print(args ...interface{})                    {}
func (u *vUI) PrintErr(args ...interface{})                 { u.errs++ }
func (u *vUI) IsTerminal() bool                             { return false }
func (u *vUI) WantBrowser() bool                            { return false }
func (u *vUI) SetAutoComplete(complete func(string) string) {}

// vObjTool answers every call in an arbitrary way (choices and symbolic numbers).
type vObjTool struct{ n int }

func (t *vObjTool) Open(file string, start, limit, offset uint64, relocationSymbol string) (plugin.ObjFile, error) {
	t.n++
	tag := "open" + strconv.Itoa(t.n)
	switch vChoice(tag, 3) {
	case 0:
		return nil, errVerif
	case 1:
		return &vObjFile{tag: tag, buildID: "other"}, nil
	}
	return &vObjFile{tag: tag}, nil
}

func (t *vObjTool) Disasm(file string, start, end uint64, intelSyntax bool) ([]plugin.Inst, error) {
	return nil, errVerif
}

type vObjFile struct {
	tag     string
	buildID string
	n       int
}

func (f *vObjFile) Name() string                        { return "obj" }
func (f *vObjFile) ObjAddr(addr uint64) (uint64, error) { return addr, nil }
func (f *vObjFile) BuildID() string                     { return f.buildID }
func (f *vObjFile) Close() error                        { return nil }
func (f *vObjFile) Symbols(r *regexp.Regexp, addr uint64) ([]*plugin.Sym, error) {
	return nil, errVerif
}
func (f *vObjFile) SourceLine(addr uint64) ([]plugin.Frame, error) {
	f.n++
	tag := f.tag + ".line" + strconv.Itoa(f.n)
	names := []string{"", "fa", "fb"}
	switch vChoice(tag, 6) {
	case 0:
		return nil, errVerif
	case 1:
		return nil, nil
	case 4:
		// addr2line's "??" at "??:0": a frame with no function, file or line
		return []plugin.Frame{{}}, nil
	case 5:
		return []plugin.Frame{{Func: "fa", File: "a.c", Line: vInt(tag + ".ln")}, {}}, nil
	case 2:
		return []plugin.Frame{{Func: names[vChoice(tag+".fn", 3)], File: "a.c", Line: vInt(tag + ".ln")}}, nil
	}
	return []plugin.Frame{{Func: "fa", File: "a.c", Line: vInt(tag + ".ln")}, {Func: "fb", Line: 0, StartLine: vInt(tag + ".sl")}}, nil
}

// VerifC12Local: local symbolization with arbitrary plug-in answers only adds
// names: samples, values, stacks, addresses and mapping ranges are untouched
// and the result is valid with unique ids.
func VerifC12Local() {
	m0 := &profile.Mapping{ID: 1, Start: vUint64("m0start"), Limit: vUint64("m0limit"), Offset: vUint64("m0off"), File: "bin"}
	m1 := &profile.Mapping{ID: 2, Start: vUint64("m1start"), Limit: vUint64("m1limit"), File: []string{"lib", ""}[vChoice("m1file", 2)], BuildID: []string{"", "bid"}[vChoice("m1bid", 2)]}
	switch vChoice("m1sym", 4) { // which has-symbols flag marks m1 as already symbolized
	case 1:
		m1.HasFunctions = true
	case 2:
		m1.HasFilenames = true
	case 3:
		m1.HasLineNumbers = true
	}
	// an already present function with an arbitrary (valid) id, used by the symbolized mapping
	f0 := &profile.Function{ID: vUint64("f0id"), Name: "old", SystemName: "old"}
	vAssume(f0.ID != 0)
	l0 := &profile.Location{ID: 1, Mapping: m0, Address: vUint64("l0addr")}
	l1 := &profile.Location{ID: 2, Mapping: m1, Address: vUint64("l1addr")}
	if m1.HasFunctions || m1.HasFilenames || m1.HasLineNumbers {
		l1.Line = []profile.Line{{Function: f0, Line: 7}}
	}
	p := &profile.Profile{
		SampleType: []*profile.ValueType{{Type: "samples", Unit: "count"}},
		Mapping:    []*profile.Mapping{m0, m1},
		Location:   []*profile.Location{l0, l1},
		Function:   []*profile.Function{f0},
		Sample: []*profile.Sample{
			{Location: []*profile.Location{l0, l1}, Value: []int64{vInt64("v0")}, Label: map[string][]string{"k": {"v"}}},
			{Location: []*profile.Location{l1}, Value: []int64{vInt64("v1")}},
		},
	}
	vAssume(p.CheckValid() == nil)
	v0, v1 := p.Sample[0].Value[0], p.Sample[1].Value[0]
	a0, a1 := l0.Address, l1.Address
	s0, e0, o0, s1, e1 := m0.Start, m0.Limit, m0.Offset, m1.Start, m1.Limit
	force := vChoice("force", 2) == 1
	hadSymbols := m1.HasFunctions || m1.HasFilenames || m1.HasLineNumbers
	err := doLocalSymbolize(p, false, force, &vObjTool{}, &vUI{})
	vReach("C12.local:done")
	vAssert(err == nil, "C12.local.err: local symbolization failed although every plug-in error is recoverable")
	vAssert(len(p.Sample) == 2 && p.Sample[0].Value[0] == v0 && p.Sample[1].Value[0] == v1, "C12.local.values: samples or values changed")
	vAssert(len(p.Sample[0].Location) == 2 && p.Sample[0].Location[0] == l0 && p.Sample[0].Location[1] == l1 && len(p.Sample[1].Location) == 1 && p.Sample[1].Location[0] == l1, "C12.local.stacks: stack depth or order changed")
	vAssert(len(p.Sample[0].Label) == 1 && p.Sample[0].Label["k"][0] == "v", "C12.local.labels: labels changed")
	vAssert(l0.Address == a0 && l1.Address == a1, "C12.local.addresses: location addresses changed")
	vAssert(m0.Start == s0 && m0.Limit == e0 && m0.Offset == o0 && m1.Start == s1 && m1.Limit == e1, "C12.local.mappings: mapping ranges changed")
	if hadSymbols && !force {
		vAssert(len(l1.Line) == 1 && l1.Line[0].Function == f0 && l1.Line[0].Line == 7, "C12.local.resymbolized: a mapping that already has symbols was symbolized again without force")
	}
	if e := p.CheckValid(); e != nil {
		vAssert(false, "C12.local.valid: symbolized profile is not valid (duplicate or dangling ids)")
	}
	vObserve(len(p.Function), len(l0.Line), len(l1.Line))
}

// VerifC12DemangleProfile: Demangle over a profile, forced or not, in every
// mode, never replaces a non-empty name by an empty one.
func VerifC12DemangleProfile() {
	namePool := []string{"", "f", "_Z3foov", "<>", "a::b(int)"}
	sysPool := []string{"", "f", "_Z3foov", "_Z3barv"}
	var fns []*profile.Function
	for i := 0; i < 2; i++ {
		fns = append(fns, &profile.Function{ID: uint64(i + 1), Name: namePool[vChoice("name"+strconv.Itoa(i), len(namePool))], SystemName: sysPool[vChoice("sys"+strconv.Itoa(i), len(sysPool))]})
	}
	before := []string{fns[0].Name, fns[1].Name}
	p := &profile.Profile{Function: fns}
	force := vChoice("force", 2) == 1
	mode := []string{"", "templates", "full", "none"}[vChoice("mode", 4)]
	Demangle(p, force, mode)
	for i, f := range fns {
		if before[i] != "" {
			vAssert(f.Name != "", "C12.demangleprofile.empty: Demangle replaced a non-empty name by an empty one")
		}
		vObserve(f.Name)
	}
}

// VerifC12Demangle: demangling never turns a non-empty name into an empty one.
func VerifC12Demangle() {
	n := 1 + vChoice("len", vBound("c12.namelen", 4))
	alphabet := []byte{'a', '(', ')', '<', '>', ':'}
	b := make([]byte, n)
	for i := range b {
		b[i] = alphabet[vChoice("c"+strconv.Itoa(i), len(alphabet))]
	}
	name := string(b)
	fn := &profile.Function{SystemName: name, Name: name}
	var opts []demangle.Option
	switch vChoice("mode", 3) {
	case 0:
		opts = []demangle.Option{demangle.NoParams, demangle.NoEnclosingParams, demangle.NoTemplateParams}
	case 1:
		opts = []demangle.Option{demangle.NoClones}
	case 2:
		opts = []demangle.Option{demangle.NoParams, demangle.NoEnclosingParams}
	}
	demangleSingleFunction(fn, opts)
	vObserve(fn.Name)
	vAssert(fn.Name != "", "C12.demangle.empty: demangling replaced a non-empty name by an empty one")
	vAssert(fn.SystemName == name, "C12.demangle.systemname: the system name was changed")
}
