//go:build verif

package symbolizer

import (
	"github.com/google/pprof/internal/plugin"
	"github.com/google/pprof/profile"
)

func init() {
	vRegister("VerifC09SymbolizeMode", VerifC09SymbolizeMode)
}

var vModeTokens = []string{"", "none", "local", "fastlocal", "remote", "force", "demangle", "demangle=", "demangle=full", "demangle=default", "demangle=x", "Demangle=Templates", "=", "a=b=c", "LOCAL", "demangle=none=x"}

// VerifC09SymbolizeMode: any -symbolize value built from option-like tokens is
// either applied or reported as unrecognized; Symbolize never panics.
func VerifC09SymbolizeMode() {
	nt := vBound("c09.modetokens", len(vModeTokens))
	n := 1 + vChoice("ntok", vBound("c09.modelen", 2))
	mode := ""
	for i := 0; i < n; i++ {
		if i > 0 {
			mode += ":"
		}
		mode += vModeTokens[vChoice("tok"+string(rune('0'+i)), nt)]
	}
	m := &profile.Mapping{ID: 1, Start: 0x1000, Limit: 0x2000, File: "bin"}
	f := &profile.Function{ID: 1, Name: "_Z3foov", SystemName: "_Z3foov"}
	l := &profile.Location{ID: 1, Mapping: m, Address: 0x1100, Line: []profile.Line{{Function: f}}}
	p := &profile.Profile{
		SampleType: []*profile.ValueType{{Type: "s", Unit: "c"}},
		Mapping:    []*profile.Mapping{m}, Function: []*profile.Function{f}, Location: []*profile.Location{l},
		Sample: []*profile.Sample{{Location: []*profile.Location{l}, Value: []int64{1}}},
	}
	ui := &vUI{}
	s := &Symbolizer{Obj: &vObjTool{}, UI: ui}
	err := s.Symbolize(mode, plugin.MappingSources{}, p)
	vReach("C09.symbolizemode:returned")
	vAssert(err == nil, "C09.symbolizemode.error: symbolization without sources failed")
	vAssert(p.CheckValid() == nil, "C09.symbolizemode.valid: profile invalid after Symbolize")
	vObserve(ui.errs, f.Name)
}
