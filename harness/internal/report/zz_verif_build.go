//go:build verif

package report

import (
	"strconv"

	"github.com/google/pprof/profile"
)

// A shape lists, per sample, its locations root-first; each location lists
// its frames root-first (caller before inlined callee). Frame id 0 means a
// frame without function; ids >= 1 name functions. Frames with the same id in
// the same location list share the location.
var vShapes = [][][][]int{
	{{{1}, {2}}, {{1}, {3}}},          // two stacks sharing the root
	{{{1}, {2}, {1}, {2}}},            // recursion
	{{{1, 2}, {3}}, {{3}}},            // inlined frames; shared leaf location
	{{{1}, {2}}, {}},                  // empty stack
	{{{1}, {0}}, {{2}}},               // frame without function
	{{{1}, {2, 3}}, {{1}, {2}}, {{2, 3}}}, // inlined pair at the leaf, shared
	{{{1}, {3}}, {{1}, {2}, {3}}},         // direct call first, then the same call through a frame that may be trimmed
	{{{1}, {2}, {3}}, {{1}, {3}}},         // the same, other sample order
	{{{1}, {2}, {}}, {{1}}},               // unsymbolized leaf address (a location without lines) under symbolized callers
	{{{}, {2}}, {{2}}},                    // unsymbolized root address
	{{{1}, {2, 3}}, {{1}, {2}}},           // an inlined pair as the leaf location; its caller is also a leaf elsewhere
}

type vProf struct {
	p     *profile.Profile
	fnOf  map[int]*profile.Function
	idOf  map[*profile.Function]int
	shape [][][]int
}

// vBuild builds the profile of a shape with nt sample types; sample values are symbolic.
func vBuild(shape [][][]int, nt int, names map[int]string, files map[int]string) *vProf {
	return vBuildA(shape, nt, names, files, false)
}

// vBuildA: with aggregated set, all addresses are zero (as after function-level aggregation).
func vBuildA(shape [][][]int, nt int, names map[int]string, files map[int]string, aggregated bool) *vProf {
	vp := &vProf{fnOf: map[int]*profile.Function{}, idOf: map[*profile.Function]int{}, shape: shape}
	p := &profile.Profile{}
	types := []string{"samples", "cpu"}
	units := []string{"count", "count"}
	for i := 0; i < nt; i++ {
		p.SampleType = append(p.SampleType, &profile.ValueType{Type: types[i], Unit: units[i]})
	}
	m := &profile.Mapping{ID: 1, Start: 0x1000, Limit: 0x9000, File: "bin", HasFunctions: true}
	p.Mapping = []*profile.Mapping{m}
	locs := map[string]*profile.Location{}
	for si, sample := range shape {
		s := &profile.Sample{}
		for t := 0; t < nt; t++ {
			s.Value = append(s.Value, vInt64("v"+strconv.Itoa(si)+"."+strconv.Itoa(t)))
		}
		for li := len(sample) - 1; li >= 0; li-- {
			lf := sample[li]
			key := ""
			for _, f := range lf {
				key += strconv.Itoa(f) + ","
			}
			loc := locs[key]
			if loc == nil {
				loc = &profile.Location{ID: uint64(len(p.Location) + 1), Mapping: m, Address: uint64(0x1000 + 16*len(p.Location))}
				for fi := len(lf) - 1; fi >= 0; fi-- {
					f := lf[fi]
					if f == 0 {
						loc.Line = append(loc.Line, profile.Line{})
						continue
					}
					fn := vp.fnOf[f]
					if fn == nil {
						fn = &profile.Function{ID: uint64(len(p.Function) + 1), Name: names[f], SystemName: names[f], Filename: files[f]}
						vp.fnOf[f] = fn
						vp.idOf[fn] = f
						p.Function = append(p.Function, fn)
					}
					loc.Line = append(loc.Line, profile.Line{Function: fn})
				}
				if aggregated {
					loc.Address = 0
				}
				locs[key] = loc
				p.Location = append(p.Location, loc)
			}
			s.Location = append(s.Location, loc)
		}
		p.Sample = append(p.Sample, s)
	}
	vp.p = p
	return vp
}

var vNames = map[int]string{1: "main", 2: "work", 3: "leaf"}
var vFiles = map[int]string{1: "m.go", 2: "w.go", 3: "l.go"}

// vFrames flattens the shape of sample si root-first.
func vFrames(shape [][][]int, si int) (ids []int, inlined []bool) {
	for _, lf := range shape[si] {
		for i, f := range lf {
			ids = append(ids, f)
			inlined = append(inlined, i != 0)
		}
	}
	return
}
