//go:build verif

package report

import "github.com/google/pprof/profile"

func init() { vRegister("VerifC07DiffBaseTotal", VerifC07DiffBaseTotal) }

// VerifC07DiffBaseTotal: with -diff_base every view's percentages are
// relative to the base total: the report total - and the total the flame
// graph view (Stacks) divides by - is the sum of the magnitudes of the base
// samples; without a diff base it is the sum over all samples.
func VerifC07DiffBaseTotal() {
	var fs []*profile.Function
	var ls []*profile.Location
	for i, n := range []string{"main", "a", "b"} {
		f := &profile.Function{ID: uint64(i + 1), Name: n, SystemName: n, Filename: n + ".go"}
		fs = append(fs, f)
		ls = append(ls, &profile.Location{ID: uint64(i + 1), Address: uint64(0x1000 + i), Line: []profile.Line{{Function: f, Line: int64(i + 1)}}})
	}
	diff := vChoice("diffbase", 2) == 1
	val := func(name string) int64 {
		v := vInt64(name)
		vAssume(v >= 0)
		vAssume(v < 1<<40)
		return v
	}
	s0, s1, b0, b1 := val("s0"), val("s1"), val("b0"), val("b1")
	p := &profile.Profile{
		SampleType: []*profile.ValueType{{Type: "samples", Unit: "count"}}, PeriodType: &profile.ValueType{Type: "cpu", Unit: "ns"}, Period: 1,
		Function: fs, Location: ls,
		Sample: []*profile.Sample{
			{Location: []*profile.Location{ls[1], ls[0]}, Value: []int64{s0}},
			{Location: []*profile.Location{ls[2], ls[0]}, Value: []int64{s1}},
			{Location: []*profile.Location{ls[1], ls[0]}, Value: []int64{-b0}},
			{Location: []*profile.Location{ls[2], ls[1], ls[0]}, Value: []int64{-b1}},
		},
	}
	if diff {
		for _, s := range p.Sample[2:] {
			s.Label = map[string][]string{"pprof::base": {"true"}}
		}
	}
	rpt := New(p, &Options{OutputFormat: Text, SampleType: "samples", SampleUnit: "count", SampleValue: func(v []int64) int64 { return v[0] }})
	want := s0 + s1 + b0 + b1
	if diff {
		want = vIte(b0+b1 > 0, b0+b1, want)
	}
	vAssert(rpt.Total() == want, "C07.difftotal.report: the report total is not the base total (with -diff_base) or the sum of all magnitudes (without)")
	st := rpt.Stacks()
	vReach("C07.difftotal:stacks")
	vAssert(st.Total == want, "C07.difftotal.stacks: the flame-graph view divides by a total other than the report's (with -diff_base: the base total)")
	vObserve(len(st.Stacks))
}
