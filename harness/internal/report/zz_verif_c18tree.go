//go:build verif

package report

import (
	"bytes"
	"strings"

	"github.com/google/pprof/profile"
)

func init() { vRegister("VerifC18TrimmedTree", VerifC18TrimmedTree) }

// VerifC18TrimmedTree: a call-tree DOT report trimmed by nodecount and/or
// nodefraction declares every node its edges mention, and the trimmed graph
// itself has no edge that leaves it. Trees have hot paths next to cold
// chains (kept -> pass-through -> small leaf), where the visual node order
// puts a leaf before its parent.
func VerifC18TrimmedTree() {
	var fs []*profile.Function
	var ls []*profile.Location
	for i, n := range []string{"main", "hot", "pass", "tiny", "mid", "deep"} {
		f := &profile.Function{ID: uint64(i + 1), Name: n, SystemName: n, Filename: n + ".go"}
		fs = append(fs, f)
		ls = append(ls, &profile.Location{ID: uint64(i + 1), Address: uint64(0x1000 * (i + 1)), Line: []profile.Line{{Function: f, Line: int64(i + 1)}}})
	}
	stack := func(ix ...int) []*profile.Location { // root first -> leaf first
		var out []*profile.Location
		for i := len(ix) - 1; i >= 0; i-- {
			out = append(out, ls[ix[i]])
		}
		return out
	}
	trees := [][][]int{
		{{0, 1}, {0, 2, 3}},                  // main->hot ; main->pass->tiny
		{{0, 1}, {0, 2, 3}, {0, 2, 4, 5}},    // two leaves below a pass-through node
		{{0, 1, 3}, {0, 2, 4, 5}, {0, 2, 3}}, // chains of different depth, same leaf name twice
		{{0, 2, 4, 5}, {0, 2, 4}, {0, 1}},    // inner node with own weight
	}
	tree := trees[vChoice("tree", vBound("c18.trees", len(trees)))]
	weights := []int64{1, 7, 100}
	p := &profile.Profile{
		SampleType: []*profile.ValueType{{Type: "samples", Unit: "count"}}, PeriodType: &profile.ValueType{Type: "cpu", Unit: "ns"}, Period: 1,
		Function: fs, Location: ls,
	}
	for i, st := range tree {
		w := weights[vChoice("w"+string(rune('0'+i)), len(weights))]
		p.Sample = append(p.Sample, &profile.Sample{Location: stack(st...), Value: []int64{w}})
	}
	o := &Options{OutputFormat: Dot, CallTree: true, SampleType: "samples", SampleUnit: "count",
		SampleValue: func(v []int64) int64 { return v[0] }, Title: "t",
		NodeCount:    vChoice("nodecount", 5), // 0 = no limit
		NodeFraction: []float64{0, 0.05, 0.4}[vChoice("nodefraction", 3)],
	}
	rpt := New(p, o)
	g, _, _, _ := rpt.newTrimmedGraph()
	vReach("C18.trimmedtree:built")
	in := map[interface{}]bool{}
	for _, n := range g.Nodes {
		in[n] = true
	}
	closed := true
	for _, n := range g.Nodes {
		for _, e := range n.Out {
			if !in[e.Dest] || e.Src != n {
				closed = false
			}
		}
		for _, e := range n.In {
			if !in[e.Src] || e.Dest != n {
				closed = false
			}
		}
	}
	vAssert(closed, "C18.trimmedtree.closed: the trimmed call tree has an edge to or from a node that is not part of it")

	var buf bytes.Buffer
	if err := printDOT(&buf, rpt); err != nil {
		vAssert(false, "C18.trimmedtree.err: printing the DOT report failed")
		return
	}
	declared := map[string]bool{}
	var ends []string
	for _, ln := range strings.Split(buf.String(), "\n") {
		if !strings.HasPrefix(ln, "N") {
			continue
		}
		sp := strings.IndexByte(ln, ' ')
		if sp < 0 {
			continue
		}
		rest := ln[sp+1:]
		switch {
		case strings.HasPrefix(rest, "-> "):
			to := rest[3:]
			if j := strings.IndexByte(to, ' '); j >= 0 {
				to = to[:j]
			}
			ends = append(ends, ln[:sp], to)
		case strings.HasPrefix(rest, "["):
			declared[ln[:sp]] = true
		}
	}
	ok := true
	for _, e := range ends {
		if !declared[e] {
			ok = false
		}
	}
	vAssert(ok, "C18.trimmedtree.dot-edge: an edge of the DOT report refers to an undeclared node")
	vObserve(len(g.Nodes), len(ends), len(declared))
}
