//go:build verif

package report

import (
	"github.com/google/pprof/internal/graph"
	"github.com/google/pprof/profile"
)

func init() {
	vRegister("VerifC05Trim", VerifC05Trim)
	vRegister("VerifC09NodeCount", VerifC09NodeCount)
}

func vAbs(x int64) int64 { return vIte(x < 0, -x, x) }

// VerifC05Trim: trimming hides entries but never changes the numbers of those shown.
func VerifC05Trim() {
	si := vC05Shapes[vChoice("shape", vBound("c05.shapes", len(vC05Shapes)))]
	shape := vShapes[si]
	vp := vBuildA(shape, 1, vNames, vFiles, true)
	for _, s := range vp.p.Sample {
		vAssume(s.Value[0] > -(1 << 40))
		vAssume(s.Value[0] < 1<<40)
	}
	format := Text
	if vChoice("format", vBound("c05.formats", 1)) == 1 {
		format = Dot
	}
	fractions := []float64{0, 0.5, 0.25}
	o := &Options{
		OutputFormat: format,
		SampleType:   "samples",
		SampleUnit:   "count",
		SampleValue:  func(v []int64) int64 { return v[0] },
		NodeCount:    vChoice("nodecount", 3), // 0 = unlimited, 1, 2
		NodeFraction: fractions[vChoice("nodefraction", vBound("c05.fractions", 2))],
		EdgeFraction: fractions[vChoice("edgefraction", vBound("c05.fractions", 2))],
		CumSort:      vChoice("cumsort", 2) == 1,
	}
	rpt := New(vp.p, o)

	// untrimmed reference numbers (definition over samples)
	type ref struct{ flat, cum int64 }
	refs := map[int]*ref{}
	edge := map[[2]int]int64{}
	for s := range shape {
		w := vp.p.Sample[s].Value[0]
		ids, _ := vFrames(shape, s)
		seen := map[int]bool{}
		seenEdge := map[[2]int]bool{}
		for j, f := range ids {
			if refs[f] == nil {
				refs[f] = &ref{}
			}
			if !seen[f] {
				seen[f] = true
				refs[f].cum += w
			}
			if j > 0 && ids[j-1] != f && !seenEdge[[2]int{ids[j-1], f}] {
				seenEdge[[2]int{ids[j-1], f}] = true
				edge[[2]int{ids[j-1], f}] += w
			}
		}
		if len(ids) > 0 {
			refs[ids[len(ids)-1]].flat += w
		}
	}
	var totalFlat int64
	for _, r := range refs {
		totalFlat += r.flat
	}
	nodeCutoff := vAbs(int64(float64(totalFlat) * o.NodeFraction))
	edgeCutoff := vAbs(int64(float64(totalFlat) * o.EdgeFraction))

	g, origCount, droppedNodes, _ := rpt.newTrimmedGraph()
	vReach("C05.trim:done")
	byName := map[string]int{}
	for f, n := range vNames {
		byName[n] = f
	}
	kept := map[int]bool{}
	inGraph := map[*graph.Node]bool{}
	var shownFlat int64
	for _, n := range g.Nodes {
		f := byName[n.Info.Name]
		kept[f] = true
		inGraph[n] = true
		shownFlat += n.FlatValue()
		vAssert(n.Flat == refs[f].flat, "C05.node.flat: a shown entry's flat differs from the untrimmed report")
		vAssert(n.Cum == refs[f].cum, "C05.node.cum: a shown entry's cum differs from the untrimmed report")
		vAssert(vAbs(n.Cum) >= nodeCutoff, "C05.node.below-cutoff: an entry whose absolute cum is below the node cutoff is shown")
	}
	vAssert(graphTotal(g) == shownFlat, "C05.header: 'accounting for' figure is not the sum of the flat values shown")
	if o.NodeCount > 0 {
		vAssert(len(g.Nodes) <= o.NodeCount, "C05.nodecount: more entries shown than nodecount")
	}
	_ = origCount
	_ = droppedNodes
	// text reports: the entries removed are exactly those below the cutoff or outside the top N
	if format == Text {
		for f, r := range refs {
			if kept[f] {
				continue
			}
			zero := vAnd(r.flat == 0, r.cum == 0)
			below := vAbs(r.cum) < nodeCutoff
			if o.NodeCount == 0 || len(g.Nodes) < o.NodeCount {
				vAssert(vOr(zero, below), "C05.removed: an entry at or above the cutoff was removed although the node count was not exhausted")
			} else {
				// removed by top-N: it must not sort before any shown entry
				for _, n := range g.Nodes {
					kf := byName[n.Info.Name]
					var before bool
					if o.CumSort {
						before = vOr(vAbs(r.cum) > vAbs(n.Cum), vAnd(vAbs(r.cum) == vAbs(n.Cum), vOr(vNames[f] < vNames[kf], vAnd(vNames[f] == vNames[kf], vAbs(r.flat) > vAbs(n.Flat)))))
					} else {
						before = vOr(vAbs(r.flat) > vAbs(n.Flat), vAnd(vAbs(r.flat) == vAbs(n.Flat), vOr(vNames[f] < vNames[kf], vAnd(vNames[f] == vNames[kf], vAbs(r.cum) > vAbs(n.Cum)))))
					}
					vAssert(vOr(vOr(zero, below), !before), "C05.topn: an entry that sorts before a shown entry was removed by nodecount")
				}
			}
		}
	}
	// edges: endpoints shown; weights by projection of each stack onto the shown entries
	type pe struct {
		w        int64
		residual bool
	}
	proj := map[[2]int]*pe{}
	for s := range shape {
		w := vp.p.Sample[s].Value[0]
		if w == 0 {
			continue // a sample without weight takes no part in the graph
		}
		ids, _ := vFrames(shape, s)
		prev := -1
		skipped := false
		seenEdge := map[[2]int]bool{}
		for _, f := range ids {
			if !kept[f] {
				skipped = true
				continue
			}
			if prev >= 0 && prev != f && !seenEdge[[2]int{prev, f}] {
				seenEdge[[2]int{prev, f}] = true
				k := [2]int{prev, f}
				if proj[k] == nil {
					proj[k] = &pe{}
				}
				proj[k].w += w
				if skipped {
					proj[k].residual = true
				}
			}
			prev = f
			skipped = false
		}
	}
	for _, n := range g.Nodes {
		f := byName[n.Info.Name]
		for dst, e := range n.Out {
			vAssert(inGraph[dst] && e.Src == n && e.Dest == dst, "C05.edge.endpoint: an edge refers to a removed entry")
			if !inGraph[dst] {
				continue
			}
			df := byName[dst.Info.Name]
			p := proj[[2]int{f, df}]
			if p == nil {
				vAssert(false, "C05.edge.unknown: an edge between entries that are adjacent in no projected stack")
				continue
			}
			vAssert(e.Weight == p.w, "C05.edge.weight: a shown edge's weight differs from the (projected) once-per-sample sum")
			vAssert(vAbs(e.Weight) >= edgeCutoff, "C05.edge.below-cutoff: an edge below the edge cutoff is shown")
			if !p.residual {
				vAssert(e.Weight == edge[[2]int{f, df}], "C05.edge.direct: a non-bypassing edge's weight differs from the untrimmed report")
			}
			if p.residual {
				vAssert(e.Residual, "C05.edge.residual: an edge that bypasses removed entries is not marked residual")
			}
		}
		for src, e := range n.In {
			vAssert(inGraph[src] && e.Dest == n, "C05.edge.endpoint-in: an incoming edge refers to a removed entry")
		}
	}
	vObserve(len(g.Nodes), shownFlat)
}

// VerifC09NodeCount (property C09): no node count, however odd, crashes report generation.
func VerifC09NodeCount() {
	vp := vBuildA(vShapes[0], 1, vNames, vFiles, true)
	for _, s := range vp.p.Sample {
		vAssume(s.Value[0] > 0)
		vAssume(s.Value[0] < 1<<20)
	}
	nc := vInt("nodecount")
	vAssume(nc > -6)
	vAssume(nc < 6)
	format := []int{Text, Tree, Traces}[vChoice("format", 3)] // dot mode sorts by an entropy score (math.Log2: uninterpreted, slow queries)
	o := &Options{OutputFormat: format, SampleType: "samples", SampleUnit: "count", SampleValue: func(v []int64) int64 { return v[0] }, NodeCount: nc}
	rpt := New(vp.p, o)
	g, _, _, _ := rpt.newTrimmedGraph()
	vReach("C09.nodecount:returned")
	vObserve(len(g.Nodes) >= 0)
}

func init() { vRegister("VerifC05TrimAddresses", VerifC05TrimAddresses) }

// VerifC05TrimAddresses: trimming at address granularity, where one function
// has several entries (two addresses, one of them unknown = 0): the entries
// shown are exactly those at or above the node cutoff, each with its untrimmed
// flat and cum, and no edge refers to a removed entry.
func VerifC05TrimAddresses() {
	m := &profile.Mapping{ID: 1, Start: 0x1000, Limit: 0x9000, File: "bin", HasFunctions: true}
	fmain := &profile.Function{ID: 1, Name: "main", SystemName: "main", Filename: "m.go"}
	fwork := &profile.Function{ID: 2, Name: "work", SystemName: "work", Filename: "w.go"}
	ftiny := &profile.Function{ID: 3, Name: "tiny", SystemName: "tiny", Filename: "t.go"}
	lmain := &profile.Location{ID: 1, Mapping: m, Address: 0x1000, Line: []profile.Line{{Function: fmain}}}
	lworkA := &profile.Location{ID: 2, Mapping: m, Address: 0x1010, Line: []profile.Line{{Function: fwork}}}
	lwork0 := &profile.Location{ID: 3, Line: []profile.Line{{Function: fwork}}} // address unknown
	ltiny := &profile.Location{ID: 4, Mapping: m, Address: 0x1020, Line: []profile.Line{{Function: ftiny}}}
	locs := []*profile.Location{lmain, lworkA, lwork0, ltiny}
	if vChoice("locorder", 2) == 1 {
		locs = []*profile.Location{lmain, lwork0, lworkA, ltiny}
	}
	leaves := []*profile.Location{lworkA, lwork0, ltiny}
	p := &profile.Profile{
		SampleType: []*profile.ValueType{{Type: "samples", Unit: "count"}},
		Mapping:    []*profile.Mapping{m}, Function: []*profile.Function{fmain, fwork, ftiny}, Location: locs,
	}
	var w [3]int64
	for i := range w {
		w[i] = vInt64("w" + string(rune('0'+i)))
		vAssume(w[i] >= 1)
		vAssume(w[i] <= 100)
		p.Sample = append(p.Sample, &profile.Sample{Location: []*profile.Location{leaves[i], lmain}, Value: []int64{w[i]}})
	}
	fractions := []float64{0.25, 0.5, 0.125}
	o := &Options{
		OutputFormat: Text, SampleType: "samples", SampleUnit: "count",
		SampleValue:  func(v []int64) int64 { return v[0] },
		NodeFraction: fractions[vChoice("nodefraction", 3)],
	}
	rpt := New(p, o)
	total := w[0] + w[1] + w[2]
	cutoff := vAbs(int64(float64(total) * o.NodeFraction))
	g, _, _, _ := rpt.newTrimmedGraph()
	vReach("C05.trimaddr:done")
	// reference: entries keyed by (name, address)
	type key struct {
		name string
		addr uint64
	}
	refCum := map[key]int64{{"main", 0x1000}: total, {"work", 0x1010}: w[0], {"work", 0}: w[1], {"tiny", 0x1020}: w[2]}
	refFlat := map[key]int64{{"main", 0x1000}: 0, {"work", 0x1010}: w[0], {"work", 0}: w[1], {"tiny", 0x1020}: w[2]}
	shown := map[key]bool{}
	in := map[*graph.Node]bool{}
	for _, n := range g.Nodes {
		k := key{n.Info.Name, n.Info.Address}
		c, ok := refCum[k]
		if !ok {
			vAssert(false, "C05.trimaddr.unknown: an entry is shown that no sample has")
			return
		}
		shown[k] = true
		in[n] = true
		vAssert(vAnd(n.Cum == c, n.Flat == refFlat[k]), "C05.trimaddr.numbers: a shown entry's flat or cum differs from the untrimmed report")
		vAssert(c >= cutoff, "C05.trimaddr.below-cutoff: an entry whose cum is below the node cutoff is shown")
	}
	for k, c := range refCum {
		if !shown[k] {
			vAssert(c < cutoff, "C05.trimaddr.removed: an entry at or above the cutoff was removed")
		}
	}
	for _, n := range g.Nodes {
		for dst := range n.Out {
			vAssert(in[dst], "C05.trimaddr.edge: an edge refers to a removed entry")
		}
		for src := range n.In {
			vAssert(in[src], "C05.trimaddr.edge: an edge refers to a removed entry")
		}
	}
	vObserve(len(g.Nodes))
}
