//go:build verif

package report

import (
	"strconv"

	"github.com/google/pprof/profile"
)

func init() {
	vRegister("VerifC17Stacks", VerifC17Stacks)
}

// VerifC17Stacks: the stack set is a faithful, self-consistent index of the samples.
func VerifC17Stacks() {
	si := vChoice("shape", vBound("c17.shapes", len(vShapes)))
	shape := vShapes[si]
	names := vNames
	files := vFiles
	if vChoice("samenames", 2) == 1 {
		// equal names in different files
		names = map[int]string{1: "f", 2: "f", 3: "g"}
	}
	opts := Options{}
	shown := files
	if vChoice("trimpath", 2) == 1 {
		// two functions of the same name in files that -trim_path shows alike
		names = map[int]string{1: "f", 2: "f", 3: "g"}
		files = map[int]string{1: "/a/x.go", 2: "/b/x.go", 3: "/a/l.go"}
		shown = map[int]string{1: "x.go", 2: "x.go", 3: "l.go"}
		opts.TrimPath = "/a:/b"
	}
	vp := vBuild(shape, 1, names, files)
	rpt := NewDefault(vp.p, opts)
	ss := rpt.Stacks()
	vReach("C17.stacks:built")

	vAssert(ss.Stacks != nil && ss.Sources != nil, "C17.nonnil: Stacks or Sources is nil")
	vAssert(len(ss.Stacks) == len(shape), "C17.count: not one stack per sample")
	vAssert(len(ss.Sources) >= 1 && ss.Sources[0].FullName == "root", "C17.root: source 0 is not the synthetic root")
	if len(ss.Stacks) != len(shape) || len(ss.Sources) < 1 {
		return
	}
	var sum, total int64
	for i, st := range ss.Stacks {
		want := vp.p.Sample[i].Value[0]
		vAssert(st.Value == want, "C17.value: stack value differs from the sample value")
		sum += st.Value
		total += want
		ids, inl := vFrames(shape, i)
		vAssert(st.Sources != nil && len(st.Sources) == len(ids)+1, "C17.depth: stack depth differs from the number of frames plus root")
		if len(st.Sources) != len(ids)+1 {
			return
		}
		vAssert(st.Sources[0] == 0, "C17.rooted: stack does not start at the root")
		for j, f := range ids {
			k := st.Sources[j+1]
			vAssert(k > 0 && k < len(ss.Sources), "C17.index: source index out of range")
			if k <= 0 || k >= len(ss.Sources) {
				return
			}
			src := ss.Sources[k]
			vAssert(src.Inlined == inl[j], "C17.inlined: inlined flag wrong")
			if f != 0 {
				vAssert(src.FullName == names[f] && src.FileName == shown[f], "C17.frame: frame name or file differs from the sample's frame")
			}
			// different functions are different sources, whatever their display
			for j2, f2 := range ids {
				if f2 != f && f2 != 0 && f != 0 {
					vAssert(st.Sources[j2+1] != k, "C17.merged: two different functions share one source")
				}
			}
		}
	}
	vAssert(sum == total, "C17.total: stack values do not sum to the signed total")
	for k, src := range ss.Sources {
		vAssert(src.Places != nil, "C17.places-nil: Places is nil")
		if k > 0 {
			vAssert(len(src.Display) > 0, "C17.display: Display is empty")
		}
		// Self = sum of the stacks that end at this source
		var self int64
		for _, st := range ss.Stacks {
			if st.Sources[len(st.Sources)-1] == k {
				self += st.Value
			}
		}
		vAssert(src.Self == self, "C17.self: Self differs from the sum of the stacks ending at the source")
		// Places: every stack containing k exactly once, at the outermost occurrence
		for i, st := range ss.Stacks {
			first := -1
			for j, x := range st.Sources {
				if x == k {
					first = j
					break
				}
			}
			n := 0
			for _, pl := range src.Places {
				vAssert(pl.Stack >= 0 && pl.Stack < len(ss.Stacks), "C17.place-range: place refers to a missing stack")
				if pl.Stack == i {
					n++
					vAssert(pl.Pos == first, "C17.place-pos: place is not the outermost occurrence")
				}
			}
			if first >= 0 {
				vAssert(n == 1, "C17.place-once: a stack containing the source is not listed exactly once")
			} else {
				vAssert(n == 0, "C17.place-extra: a stack not containing the source is listed")
			}
		}
	}
	vObserve(len(ss.Sources), ss.Total, strconv.Itoa(len(ss.Stacks)))
}

func init() { vRegister("VerifC17ManyStacks", VerifC17ManyStacks) }

// VerifC17ManyStacks: the place index stays exact for profiles with hundreds
// of stacks: a source that occurs in stack 0 and again 255, 256 or 510 stacks
// later (the distances at which small per-stack counters wrap) is listed for
// both, exactly once each.
func VerifC17ManyStacks() {
	gap := []int{255, 256, 510}[vChoice("gap", vBound("c17.gaps", 3))]
	m := &profile.Mapping{ID: 1, Start: 0x1000, Limit: 0x9000, File: "bin", HasFunctions: true}
	mk := func(id uint64, name string) *profile.Location {
		f := &profile.Function{ID: id, Name: name, SystemName: name, Filename: name + ".go"}
		return &profile.Location{ID: id, Mapping: m, Address: 0x1000 + 16*id, Line: []profile.Line{{Function: f}}}
	}
	lmain, la, lb := mk(1, "main"), mk(2, "a"), mk(3, "b")
	p := &profile.Profile{SampleType: []*profile.ValueType{{Type: "samples", Unit: "count"}}, PeriodType: &profile.ValueType{Type: "cpu", Unit: "ns"}, Period: 1,
		Mapping: []*profile.Mapping{m}, Location: []*profile.Location{lmain, la, lb},
		Function: []*profile.Function{lmain.Line[0].Function, la.Line[0].Function, lb.Line[0].Function}}
	n := gap + 2
	for i := 0; i < n; i++ {
		leaf := lb
		if i == 0 || i == gap {
			leaf = la
		}
		p.Sample = append(p.Sample, &profile.Sample{Location: []*profile.Location{leaf, lmain}, Value: []int64{1}})
	}
	rpt := NewDefault(p, Options{})
	ss := rpt.Stacks()
	vReach("C17.many:built")
	if len(ss.Stacks) != n {
		vAssert(false, "C17.many.count: not one stack per sample")
		return
	}
	for k, src := range ss.Sources {
		seen := map[int]int{}
		for _, pl := range src.Places {
			seen[pl.Stack]++
		}
		for i, st := range ss.Stacks {
			contains := false
			for _, x := range st.Sources {
				if x == k {
					contains = true
				}
			}
			want := 0
			if contains {
				want = 1
			}
			if seen[i] != want {
				vAssert(false, "C17.many.places: a stack containing a source is not listed exactly once in its place index (profile with hundreds of stacks)")
				return
			}
		}
	}
	vObserve(len(ss.Sources))
}
