//go:build verif

package report

import (
	"bytes"
	"strconv"
	"strings"

	"github.com/google/pprof/profile"
)

func init() {
	vRegister("VerifC18Callgrind", VerifC18Callgrind)
}

func vMetaByte(tag string) byte {
	c := vByte(tag)
	switch vChoice(tag+".cls", 6) {
	case 0:
		vAssume(c == '\n')
	case 1:
		vAssume(c == ' ')
	case 2:
		vAssume(c == '(')
	case 3:
		vAssume(c == ')')
	case 4:
		vAssume(c == '=')
	case 5:
		vAssume(c >= 'a')
		vAssume(c <= 'z')
	}
	return c
}

// VerifC18Callgrind: the callgrind output obeys the name-compression grammar
// and its positions decode to the nodes' addresses, whatever the names contain.
func VerifC18Callgrind() {
	where := vChoice("where", 3)
	name1, file1, obj := "main", "m.go", "bin"
	switch where {
	case 0:
		name1 = "ma" + string([]byte{vMetaByte("name")}) + "in"
	case 1:
		file1 = "m" + string([]byte{vMetaByte("file")}) + ".go"
	case 2:
		obj = "bi" + string([]byte{vMetaByte("obj")}) + "n"
	}
	addrs := [][3]uint64{{0x1000, 0x1010, 0x2000}, {0x10, 0xfffffffffffffff0, 0x10}, {5, 5, 7}}
	ad := addrs[vChoice("addrs", len(addrs))]
	m := &profile.Mapping{ID: 1, Start: 0, Limit: 0xffffffffffffffff, File: obj}
	f1 := &profile.Function{ID: 1, Name: name1, SystemName: name1, Filename: file1}
	f2 := &profile.Function{ID: 2, Name: "work", SystemName: "work", Filename: "w.go"}
	f3 := &profile.Function{ID: 3, Name: name1, SystemName: name1, Filename: file1} // same names: exercises back references
	l1 := &profile.Location{ID: 1, Mapping: m, Address: ad[0], Line: []profile.Line{{Function: f1, Line: 1}}}
	l2 := &profile.Location{ID: 2, Mapping: m, Address: ad[1], Line: []profile.Line{{Function: f2, Line: 2}}}
	l3 := &profile.Location{ID: 3, Mapping: m, Address: ad[2], Line: []profile.Line{{Function: f3, Line: 3}}}
	f4 := &profile.Function{ID: 4, Name: "tail", SystemName: "tail", Filename: "t.go"}
	l4 := &profile.Location{ID: 4, Mapping: m, Address: ad[2] + 0x40, Line: []profile.Line{{Function: f4, Line: 4}}}
	p := &profile.Profile{
		SampleType: []*profile.ValueType{{Type: "samples", Unit: "count"}},
		Mapping:    []*profile.Mapping{m}, Function: []*profile.Function{f1, f2, f3, f4}, Location: []*profile.Location{l1, l2, l3, l4},
		Sample: []*profile.Sample{
			{Location: []*profile.Location{l2, l1}, Value: []int64{3}},
			{Location: []*profile.Location{l3, l2, l1}, Value: []int64{2}},
			{Location: []*profile.Location{l4, l3, l2, l1}, Value: []int64{1}},
		},
	}
	rpt := NewDefault(p, Options{OutputFormat: Callgrind, OutputUnit: "count"})
	var buf bytes.Buffer
	err := printCallgrind(&buf, rpt)
	vReach("C18.callgrind:printed")
	if err != nil {
		vAssert(false, "C18.callgrind.err: printing failed")
		return
	}
	sites := []string{"function name", "file name", "binary name"}
	// independent reader of the subset pprof emits
	tables := map[string]map[int]string{"ob": {}, "fl": {}, "fn": {}}
	tables["cfl"], tables["cfn"] = tables["fl"], tables["fn"]
	lines := strings.Split(buf.String(), "\n")
	bad := ""
	for li, ln := range lines {
		if ln == "" || li < 2 {
			continue
		}
		if i := strings.IndexByte(ln, '='); i > 0 && tables[ln[:i]] != nil {
			v := ln[i+1:]
			if v == "" {
				continue
			}
			if v[0] != '(' {
				bad = "name without (id)"
				break
			}
			j := strings.IndexByte(v, ')')
			if j < 0 {
				bad = "unterminated (id)"
				break
			}
			id, e := strconv.Atoi(v[1:j])
			if e != nil {
				bad = "non-numeric id"
				break
			}
			tab := tables[ln[:i]]
			if len(v) == j+1 {
				if _, ok := tab[id]; !ok {
					bad = "back-reference to an undefined id"
					break
				}
			} else {
				if v[j+1] != ' ' {
					bad = "missing space after (id)"
					break
				}
				if old, ok := tab[id]; ok && old != v[j+2:] {
					bad = "id redefined with another name"
					break
				}
				tab[id] = v[j+2:]
			}
			continue
		}
		if strings.HasPrefix(ln, "calls=") {
			ln = ln[len("calls="):]
		}
		// cost line: fields are numbers, +n, -n, * or 0x..
		for _, fld := range strings.Fields(ln) {
			ok := fld == "*"
			if !ok {
				_, e1 := strconv.ParseInt(fld, 0, 64)
				_, e2 := strconv.ParseUint(fld, 0, 64)
				ok = e1 == nil || e2 == nil
			}
			if !ok {
				bad = "line is neither a name line nor a cost line"
			}
		}
		if bad != "" {
			break
		}
	}
	vAssert(bad == "", "C18.callgrind.grammar."+strconv.Itoa(where)+": output breaks the name-compression grammar with a metacharacter in the "+sites[where])
	vObserve(len(lines))
}

func init() { vRegister("VerifC08ReportDot", VerifC08ReportDot) }

// VerifC08ReportDot (property C08): the DOT report of a profile whose samples
// carry several string and numeric tags (with and without a bytes tag) is
// byte-identical under three iteration orders of every Go map involved.
func VerifC08ReportDot() {
	m := &profile.Mapping{ID: 1, Start: 0x1000, Limit: 0x9000, File: "bin", HasFunctions: true}
	var fs []*profile.Function
	var ls []*profile.Location
	for i, n := range []string{"main", "a", "b"} {
		f := &profile.Function{ID: uint64(i + 1), Name: n, SystemName: n, Filename: n + ".go"}
		fs = append(fs, f)
		ls = append(ls, &profile.Location{ID: uint64(i + 1), Mapping: m, Address: uint64(0x1000 + 16*i), Line: []profile.Line{{Function: f, Line: int64(i + 1)}}})
	}
	build := func() *profile.Profile {
		return &profile.Profile{
			SampleType: []*profile.ValueType{{Type: "samples", Unit: "count"}}, PeriodType: &profile.ValueType{Type: "cpu", Unit: "ns"}, Period: 1,
			Mapping: []*profile.Mapping{m}, Function: fs, Location: ls,
			Sample: []*profile.Sample{
				{Location: []*profile.Location{ls[1], ls[0]}, Value: []int64{int64(1 + vChoice("w0", 2))},
					NumLabel: map[string][]int64{"reqs": {2}, "latency": {5}, "depth": {7}}, NumUnit: map[string][]string{"latency": {"ms"}},
					Label: map[string][]string{"k": {"x"}, "j": {"y"}}},
				{Location: []*profile.Location{ls[2], ls[0]}, Value: []int64{int64(1 + vChoice("w1", 2))},
					NumLabel: map[string][]int64{"bytes": {16}, "reqs": {3}}, NumUnit: map[string][]string{"bytes": {"bytes"}}},
				{Location: []*profile.Location{ls[1], ls[0]}, Value: []int64{1}, NumLabel: map[string][]int64{"reqs": {9}, "depth": {1}}},
			},
		}
	}
	compose := func(mode string) string {
		vMapOrder(mode)
		p := build()
		units, _ := p.NumLabelUnits()
		rpt := New(p, &Options{OutputFormat: Dot, SampleType: "samples", SampleUnit: "count", NumLabelUnits: units,
			SampleValue: func(v []int64) int64 { return v[0] }, Title: "t"})
		var buf bytes.Buffer
		if err := printDOT(&buf, rpt); err != nil {
			return "error"
		}
		return buf.String()
	}
	first := compose("insertion")
	second := compose("reverse")
	third := compose("rotate")
	vMapOrder("")
	vReach("C08.reportdot:composed")
	vAssert(vAnd(vStrEq(first, second), vStrEq(first, third)), "sched:C08.reportdot.order: the DOT report depends on map iteration order")
}

func init() { vRegister("VerifC08CallTree", VerifC08CallTree) }

// VerifC08CallTree (property C08): in call-tree mode one function appears as
// several nodes with identical description; the DOT report must still not
// depend on map iteration order.
func VerifC08CallTree() {
	var fs []*profile.Function
	var ls []*profile.Location
	for i, n := range []string{"a", "c", "x", "b", "d"} {
		f := &profile.Function{ID: uint64(i + 1), Name: n, SystemName: n, Filename: "f.go"}
		fs = append(fs, f)
		ls = append(ls, &profile.Location{ID: uint64(i + 1), Line: []profile.Line{{Function: f}}})
	}
	build := func() *profile.Profile {
		return &profile.Profile{
			SampleType: []*profile.ValueType{{Type: "samples", Unit: "count"}}, PeriodType: &profile.ValueType{Type: "cpu", Unit: "ns"}, Period: 1,
			Function: fs, Location: ls,
			Sample: []*profile.Sample{
				{Location: []*profile.Location{ls[3], ls[2], ls[0]}, Value: []int64{int64(1 + vChoice("w0", 2))}}, // a -> x -> b
				{Location: []*profile.Location{ls[4], ls[2], ls[1]}, Value: []int64{int64(1 + vChoice("w1", 2))}}, // c -> x -> d
			},
		}
	}
	compose := func(mode string) string {
		vMapOrder(mode)
		rpt := New(build(), &Options{OutputFormat: Dot, CallTree: true, SampleType: "samples", SampleUnit: "count",
			SampleValue: func(v []int64) int64 { return v[0] }, Title: "t"})
		var buf bytes.Buffer
		if err := printDOT(&buf, rpt); err != nil {
			return "error"
		}
		return buf.String()
	}
	first := compose("insertion")
	second := compose("reverse")
	third := compose("rotate")
	vMapOrder("")
	vReach("C08.calltree:composed")
	vAssert(vAnd(vStrEq(first, second), vStrEq(first, third)), "sched:C08.calltree.order: the call-tree DOT report depends on map iteration order")
}

func init() { vRegister("VerifC15OutputUnit", VerifC15OutputUnit) }

// VerifC15OutputUnit (property C15): with unit=minimum the output unit is
// chosen from the values as they are displayed, i.e. after -divide_by: the
// unit of the smallest displayed value (times 100 when the smallest and the
// total fall into different units and are more than a factor 100 apart).
func VerifC15OutputUnit() {
	m := &profile.Mapping{ID: 1, Start: 0x1000, Limit: 0x9000, File: "bin", HasFunctions: true}
	f1 := &profile.Function{ID: 1, Name: "big", SystemName: "big", Filename: "b.go"}
	f2 := &profile.Function{ID: 2, Name: "small", SystemName: "small", Filename: "s.go"}
	l1 := &profile.Location{ID: 1, Mapping: m, Address: 0x1000, Line: []profile.Line{{Function: f1}}}
	l2 := &profile.Location{ID: 2, Mapping: m, Address: 0x1010, Line: []profile.Line{{Function: f2}}}
	big, small := vInt64("big"), vInt64("small")
	vAssume(small >= 1)
	vAssume(big >= small)
	vAssume(big < 1<<30)
	p := &profile.Profile{
		SampleType: []*profile.ValueType{{Type: "space", Unit: "bytes"}}, PeriodType: &profile.ValueType{Type: "space", Unit: "bytes"}, Period: 1,
		Mapping: []*profile.Mapping{m}, Function: []*profile.Function{f1, f2}, Location: []*profile.Location{l1, l2},
		Sample: []*profile.Sample{{Location: []*profile.Location{l1}, Value: []int64{big}}, {Location: []*profile.Location{l2}, Value: []int64{small}}},
	}
	ratios := []float64{0, 1.0 / 1024, 1024, 1.0 / (1024 * 1024)}
	shifts := []int{0, -10, 10, -20}
	ri := vChoice("ratio", vBound("c15.ratios", len(ratios)))
	o := &Options{OutputFormat: Text, SampleType: "space", SampleUnit: "bytes", OutputUnit: "minimum", Ratio: ratios[ri],
		SampleValue: func(v []int64) int64 { return v[0] }}
	rpt := New(p, o)
	g := rpt.newGraph(nil)
	rpt.selectOutputUnit(g)
	vReach("C15.outputunit:selected")
	scale := func(v int64) int64 {
		if sh := shifts[ri]; sh > 0 {
			return v << uint(sh)
		} else if sh < 0 {
			return v >> uint(-sh)
		}
		return v
	}
	// reference unit of a displayed value: the largest of B, kB, MB, GB, TB that keeps it at or above one
	unitOf := func(v int64) string {
		switch {
		case v >= 1<<50:
			return "PB"
		case v >= 1<<40:
			return "TB"
		case v >= 1<<30:
			return "GB"
		case v >= 1<<20:
			return "MB"
		case v >= 1<<10:
			return "kB"
		}
		return "B"
	}
	dmin, dmax := scale(small), scale(big+small)
	want := unitOf(dmin)
	if unitOf(dmin) != unitOf(dmax) && dmin*100 < dmax {
		want = unitOf(100 * dmin)
	}
	vAssert(o.OutputUnit == want, "C15.outputunit: with unit=minimum the output unit is not the unit of the smallest displayed (divided) value")
}

func init() { vRegister("VerifC09MeanReports", VerifC09MeanReports) }

// VerifC09MeanReports (property C09): report generation with the mean option
// never crashes, whatever the counts are - zero counts (division by zero),
// zero values, negative values - for the text-like formats.
func VerifC09MeanReports() {
	m := &profile.Mapping{ID: 1, Start: 0x1000, Limit: 0x9000, File: "bin", HasFunctions: true}
	f1 := &profile.Function{ID: 1, Name: "main", SystemName: "main", Filename: "m.go"}
	f2 := &profile.Function{ID: 2, Name: "work", SystemName: "work", Filename: "w.go"}
	l1 := &profile.Location{ID: 1, Mapping: m, Address: 0x1000, Line: []profile.Line{{Function: f1, Line: 1}}}
	l2 := &profile.Location{ID: 2, Mapping: m, Address: 0x1010, Line: []profile.Line{{Function: f2, Line: 2}}}
	pool := [][2]int64{{0, 5}, {2, 7}, {0, 0}, {3, -9}}
	a, b := pool[vChoice("s0", len(pool))], pool[vChoice("s1", len(pool))]
	p := &profile.Profile{
		SampleType: []*profile.ValueType{{Type: "count", Unit: "count"}, {Type: "delay", Unit: "nanoseconds"}}, PeriodType: &profile.ValueType{Type: "cpu", Unit: "ns"}, Period: 1,
		Mapping: []*profile.Mapping{m}, Function: []*profile.Function{f1, f2}, Location: []*profile.Location{l1, l2},
		Sample: []*profile.Sample{{Location: []*profile.Location{l2, l1}, Value: []int64{a[0], a[1]}, Label: map[string][]string{"k": {"v"}}}, {Location: []*profile.Location{l1}, Value: []int64{b[0], b[1]}}},
	}
	formats := []int{Text, Traces, Tree, Tags} // (TopProto writes gzip: outside the engine)
	format := formats[vChoice("format", len(formats))]
	rpt := New(p, &Options{OutputFormat: format, SampleType: "delay", SampleUnit: "nanoseconds", OutputUnit: "nanoseconds",
		SampleValue: func(v []int64) int64 { return v[1] }, SampleMeanDivisor: func(v []int64) int64 { return v[0] }})
	var buf bytes.Buffer
	err := Generate(&buf, rpt, nil)
	vReach("C09.meanreports:generated")
	vAssert(err == nil, "C09.meanreports.error: generating a report with the mean option failed")
	vObserve(len(buf.Bytes()) > 0)
}
