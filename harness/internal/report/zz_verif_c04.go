//go:build verif

package report

func init() {
	vRegister("VerifC04TextItems", VerifC04TextItems)
}

// shapes without function-less frames (entry identity = function name)
var vC04Shapes = []int{0, 1, 5, 6, 2, 3, 7} // (shapes 8, 9 - line-less locations - are for C17: a graph treats them like shape 4's function-less frame)

// order used by the trimming check (C05)
var vC05Shapes = []int{6, 1, 10, 5, 0, 2, 3, 7}

// VerifC04TextItems: flat / cum / edge weights of an untrimmed report equal
// their definition over the samples, for every sample value.
func VerifC04TextItems() {
	sidx := vChoice("shape", vBound("c04.shapes", len(vC04Shapes)))
	si := vC04Shapes[sidx]
	shape := vShapes[si]
	vp := vBuildA(shape, 2, vNames, vFiles, true)
	idx := vChoice("sample_index", 2)
	// the mean option (division by a symbolic sum) is explored for the first c04.meanshapes shapes
	mean := sidx < vBound("c04.meanshapes", len(vC04Shapes)) && vChoice("mean", 2) == 1
	for _, s := range vp.p.Sample {
		for _, v := range s.Value {
			vAssume(v > -(1 << 40))
			vAssume(v < 1<<40)
		}
	}
	o := &Options{
		OutputFormat: Text,
		SampleType:   vp.p.SampleType[idx].Type,
		SampleUnit:   "count",
		SampleValue:  func(v []int64) int64 { return v[idx] },
	}
	if mean {
		o.SampleMeanDivisor = func(v []int64) int64 { return v[1-idx] }
		for _, s := range vp.p.Sample {
			vAssume(s.Value[1-idx] >= 0) // counts are not negative
		}
	}
	rpt := New(vp.p, o)

	// reference sums, from the statement
	type ref struct{ flat, flatDiv, cum, cumDiv int64 }
	refs := map[int]*ref{}
	edge := map[[2]int]int64{}
	edgeLive := map[[2]int]bool{} // the adjacency occurs in a sample that counts (non-zero value or divisor)
	var total, totalDiv int64
	for s := range shape {
		w := vp.p.Sample[s].Value[idx]
		var d int64
		if mean {
			d = vp.p.Sample[s].Value[1-idx]
		}
		total += vIte(w < 0, -w, w)
		totalDiv += d
		ids, _ := vFrames(shape, s)
		seen := map[int]bool{}
		seenEdge := map[[2]int]bool{}
		for j, f := range ids {
			if refs[f] == nil {
				refs[f] = &ref{}
			}
			if !seen[f] {
				seen[f] = true
				refs[f].cum += w
				refs[f].cumDiv += d
			}
			if j > 0 && ids[j-1] != f && !seenEdge[[2]int{ids[j-1], f}] {
				seenEdge[[2]int{ids[j-1], f}] = true
				edge[[2]int{ids[j-1], f}] += w
				edgeLive[[2]int{ids[j-1], f}] = vOr(edgeLive[[2]int{ids[j-1], f}], vOr(w != 0, d != 0))
			}
		}
		if len(ids) > 0 {
			leaf := ids[len(ids)-1]
			refs[leaf].flat += w
			refs[leaf].flatDiv += d
		}
	}
	quot := func(v, d int64) int64 {
		if d == 0 {
			return v
		}
		return v / d
	}
	vAssert(rpt.total == quot(total, totalDiv), "C04.total: report total is not the sum of absolute sample values (divided by the count sum with mean)")

	g := rpt.newGraph(nil)
	vReach("C04.graph:built")
	byName := map[string]int{}
	for f, n := range vNames {
		byName[n] = f
	}
	found := map[int]bool{}
	printable := map[string]int{}
	for _, n := range g.Nodes {
		f := byName[n.Info.Name]
		printable[n.Info.PrintableName()] = f
		r := refs[f]
		if r == nil {
			vAssert(false, "C04.node.unknown: graph has an entry that no sample frame maps to")
			continue
		}
		found[f] = true
		vAssert(n.Flat == r.flat, "C04.node.flat: flat is not the sum over samples whose leaf is the entry")
		vAssert(n.Cum == r.cum, "C04.node.cum: cum is not the once-per-sample sum over samples containing the entry")
		vAssert(n.FlatValue() == quot(r.flat, r.flatDiv), "C04.node.flatvalue: displayed flat (mean) differs from sum/divisor")
		vAssert(n.CumValue() == quot(r.cum, r.cumDiv), "C04.node.cumvalue: displayed cum (mean) differs from sum/divisor")
		for dst, e := range n.Out {
			df := byName[dst.Info.Name]
			vAssert(e.Weight == edge[[2]int{f, df}], "C04.edge.weight: edge weight is not the once-per-sample sum over samples with that adjacency")
		}
	}
	for f, r := range refs {
		if !found[f] {
			vAssert(vAnd(r.flat == 0, r.cum == 0), "C04.node.missing: an entry with non-zero flat or cum is missing from the graph")
		}
	}
	// the header's "accounting for" figure is the sum of the flat values shown (also with mean)
	var shownFlat int64
	for _, n := range g.Nodes {
		shownFlat += n.FlatValue()
	}
	vAssert(graphTotal(g) == shownFlat, "C05.header.mean: the 'accounting for' figure is not the sum of the flat values shown")
	// every caller/callee adjacency of a sample is an edge of the graph
	for ab := range edge {
		if !found[ab[0]] || !found[ab[1]] {
			continue
		}
		has := false
		for _, n := range g.Nodes {
			if byName[n.Info.Name] != ab[0] {
				continue
			}
			for dst := range n.Out {
				if byName[dst.Info.Name] == ab[1] {
					has = true
				}
			}
		}
		vAssert(vOr(has, !edgeLive[ab]), "C04.edge.missing: two entries are adjacent in a sample (with a non-zero value) but the graph has no edge between them")
	}

	// the same numbers in the text report items
	items, _ := TextItems(rpt)
	vReach("C04.items:built")
	for _, it := range items {
		f := printable[it.Name]
		r := refs[f]
		if r == nil {
			vAssert(false, "C04.item.unknown: text report has an entry that no sample frame maps to")
			continue
		}
		vAssert(it.Flat == quot(r.flat, r.flatDiv), "C04.item.flat: text item flat differs from the definition")
		vAssert(it.Cum == quot(r.cum, r.cumDiv), "C04.item.cum: text item cum differs from the definition")
	}
	vObserve(len(g.Nodes), len(items), rpt.total)
}
