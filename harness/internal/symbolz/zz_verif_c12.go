//go:build verif

package symbolz

func init() {
	vRegister("VerifC12Adjust", VerifC12Adjust)
}

// VerifC12Adjust: adjust returns the mathematical sum, or reports overflow
// exactly when the sum leaves the uint64 range.
func VerifC12Adjust() {
	addr := vUint64("addr")
	off := vInt64("off")
	got, overflow := adjust(addr, off)
	vObserve(got, overflow)
	// mathematical sum in 65-bit terms: split by the sign of the offset
	if off >= 0 {
		wraps := addr+uint64(off) < addr
		vAssert(overflow == wraps, "C12.adjust.overflow+: overflow flag wrong for a non-negative offset")
		if !overflow {
			vAssert(got == addr+uint64(off), "C12.adjust.sum+: adjusted address is not addr+offset")
		}
	} else {
		mag := uint64(-off) // also right for MinInt64
		under := mag > addr
		vAssert(overflow == under, "C12.adjust.overflow-: overflow flag wrong for a negative offset")
		if !overflow {
			vAssert(got == addr-mag, "C12.adjust.sum-: adjusted address is not addr-|offset|")
		}
	}
}
