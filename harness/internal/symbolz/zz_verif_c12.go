//go:build verif

package symbolz

import (
	"io"
	"strconv"
	"strings"

	"github.com/google/pprof/internal/plugin"
	"github.com/google/pprof/profile"
)

func init() {
	vRegister("VerifC12Adjust", VerifC12Adjust)
}

// VerifC12Adjust: adjust returns the mathematical sum, or reports overflow
// exactly when the sum leaves the uint64 range.
func VerifC12Adjust() {
	addr := vUint64("addr")
	off := vInt64("off")
	got, overflow := adjust(addr, off)
	vObserve(got, overflow)
	// mathematical sum in 65-bit terms: split by the sign of the offset
	if off >= 0 {
		wraps := addr+uint64(off) < addr
		vAssert(overflow == wraps, "C12.adjust.overflow+: overflow flag wrong for a non-negative offset")
		if !overflow {
			vAssert(got == addr+uint64(off), "C12.adjust.sum+: adjusted address is not addr+offset")
		}
	} else {
		mag := uint64(-off) // also right for MinInt64
		under := mag > addr
		vAssert(overflow == under, "C12.adjust.overflow-: overflow flag wrong for a negative offset")
		if !overflow {
			vAssert(got == addr-mag, "C12.adjust.sum-: adjusted address is not addr-|offset|")
		}
	}
}

func init() { vRegister("VerifC12Symbolz", VerifC12Symbolz) }

type vSzUI struct{}

func (vSzUI) ReadLine(prompt string) (string, error)       { return "", io.EOF }
func (vSzUI) Print(args ...interface{})                    {}
func (vSzUI) PrintErr(args ...interface{})                 {}
func (vSzUI) IsTerminal() bool                             { return false }
func (vSzUI) WantBrowser() bool                            { return false }
func (vSzUI) SetAutoComplete(complete func(string) string) {}

// VerifC12Symbolz: remote symbolization only adds names. A profile merged
// from two processes: mapping 1 is already symbolized, mapping 2 is not and
// has a location at the same address as one of mapping 1; the symbol service
// answers every address asked (and, optionally, one it was not asked). After
// Symbolize: locations of the symbolized mapping keep their lines (without
// force), every asked location of mapping 2 carries the answered name, no
// sample, location, mapping or value changes, the profile stays valid.
func VerifC12Symbolz() {
	force := vBool("force")
	m1 := &profile.Mapping{ID: 1, Start: 0x1000, Limit: 0x5000, File: "bin1", HasFunctions: true}
	m2 := &profile.Mapping{ID: 2, Start: 0x1000, Limit: 0x5000, File: "bin2"}
	forig := &profile.Function{ID: uint64(1 + vChoice("fid", 3)), Name: "orig", SystemName: "orig"}
	l1 := &profile.Location{ID: 1, Mapping: m1, Address: 0x1100, Line: []profile.Line{{Function: forig, Line: 7}}}
	l2 := &profile.Location{ID: 2, Mapping: m2, Address: 0x1100}
	l3 := &profile.Location{ID: 3, Mapping: m2, Address: 0x1200}
	l4 := &profile.Location{ID: 4, Mapping: m1, Address: 0x1200}
	if vChoice("l4lines", 2) == 1 {
		l4.Line = []profile.Line{{Function: forig, Line: 9}}
	}
	p := &profile.Profile{
		SampleType: []*profile.ValueType{{Type: "samples", Unit: "count"}},
		Mapping:    []*profile.Mapping{m1, m2}, Function: []*profile.Function{forig},
		Location: []*profile.Location{l1, l2, l3, l4},
		Sample: []*profile.Sample{
			{Location: []*profile.Location{l2, l1}, Value: []int64{3}},
			{Location: []*profile.Location{l3, l4}, Value: []int64{4}},
		},
	}
	// the mapping was normalised by a merge: the source saw it at another start
	srcStart := []uint64{0x1000, 0x3000, 0x0}[vChoice("srcstart", 3)]
	delta := int64(srcStart) - int64(m2.Start)
	sources := plugin.MappingSources{"bin2": {{Source: "http://host/pprof/heap", Start: srcStart}}}
	if force {
		sources["bin1"] = []struct {
			Source string
			Start  uint64
		}{{Source: "http://host/pprof/heap", Start: 0x1000}}
	}
	extra := vChoice("extra", 2) == 1
	var asked []string
	syms := func(source, query string) ([]byte, error) {
		var out string
		for _, a := range strings.Split(query, "+") {
			asked = append(asked, a)
			out += a + " sym_" + a + "\n"
		}
		if extra {
			out += "0x9300 unasked\n" // an address nobody asked about (large enough to be re-based)
		}
		return []byte(out), nil
	}
	err := Symbolize(p, force, sources, syms, vSzUI{})
	vReach("C12.symbolz:returned")
	vAssert(err == nil, "C12.symbolz.error: symbolization failed")
	vAssert(p.CheckValid() == nil, "C12.symbolz.valid: profile invalid after remote symbolization")
	vAssert(len(p.Sample) == 2 && len(p.Location) == 4 && len(p.Mapping) == 2, "C12.symbolz.shape: samples, locations or mappings were added or dropped")
	vAssert(p.Sample[0].Value[0] == 3 && p.Sample[1].Value[0] == 4 && p.Sample[0].Location[0] == l2 && p.Sample[0].Location[1] == l1, "C12.symbolz.samples: sample values or stacks changed")
	if !force {
		ok := len(l1.Line) == 1 && l1.Line[0].Function == forig && l1.Line[0].Line == 7
		vAssert(ok, "C12.symbolz.kept: a location of an already symbolized mapping lost or changed its symbol data")
		if len(l4.Line) == 1 {
			vAssert(l4.Line[0].Function == forig && l4.Line[0].Line == 9, "C12.symbolz.kept: a location of an already symbolized mapping lost or changed its symbol data")
		} else {
			vAssert(len(l4.Line) == 0, "C12.symbolz.kept: a location of an already symbolized mapping was given symbol data from another mapping's answers")
		}
	}
	// mapping 2: both locations were asked (at the source's addresses) and named
	name := func(a uint64) string { return "sym_0x" + strconv.FormatUint(uint64(int64(a)+delta), 16) }
	for _, l := range []*profile.Location{l2, l3} {
		ok := len(l.Line) == 1 && l.Line[0].Function != nil
		if ok {
			ok = l.Line[0].Function.Name == name(l.Address)
		}
		vAssert(ok, "C12.symbolz.named: an unsymbolized location did not get the name the service answered for its address")
	}
	vAssert(m2.HasFunctions, "C12.symbolz.flag: the symbolized mapping is not marked as having functions")
	vObserve(len(p.Function), len(asked))
}
