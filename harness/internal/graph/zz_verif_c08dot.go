//go:build verif

package graph

import (
	"bytes"
	"strconv"

	"github.com/google/pprof/profile"
)

func init() {
	vRegister("VerifC08DotOrder", VerifC08DotOrder)
}

// VerifC08DotOrder: the DOT document of a graph does not depend on map
// iteration order. One caller with three callees (and one callee with two
// callers), every weight in {1,2} so that ties are included; the document is
// composed under two different iteration orders of every Go map involved
// (insertion order, reversed, rotated by half) and compared byte
// for byte.
func VerifC08DotOrder() {
	var fs []*profile.Function
	var ls []*profile.Location
	for i, n := range []string{"main", "a", "b", "c", "other"} {
		f := &profile.Function{ID: uint64(i + 1), Name: n, Filename: n + ".go"}
		fs = append(fs, f)
		ls = append(ls, &profile.Location{ID: uint64(i + 1), Line: []profile.Line{{Function: f, Line: int64(i + 1)}}})
	}
	w := make([]int64, 4)
	for i := range w {
		// enumerated (ComposeDot derives font sizes and colours from the
		// weights in floating point and prints them): ties included
		w[i] = int64(1 + vChoice("w"+strconv.Itoa(i), 2))
	}
	prof := &profile.Profile{
		SampleType: []*profile.ValueType{{Type: "samples", Unit: "count"}},
		Function:   fs, Location: ls,
		Sample: []*profile.Sample{
			{Location: []*profile.Location{ls[1], ls[0]}, Value: []int64{w[0]}, Label: map[string][]string{"k": {"x"}, "j": {"y"}}},
			{Location: []*profile.Location{ls[2], ls[0]}, Value: []int64{w[1]}, Label: map[string][]string{"k": {"y"}}},
			{Location: []*profile.Location{ls[3], ls[0]}, Value: []int64{w[2]}, NumLabel: map[string][]int64{"bytes": {8}, "reqs": {2}}},
			{Location: []*profile.Location{ls[1], ls[4]}, Value: []int64{w[3]}},
			// the same stack as the first sample under other labels, same weight: several label tags of one node tie
			{Location: []*profile.Location{ls[1], ls[0]}, Value: []int64{w[0]}, Label: map[string][]string{"k": {"z"}}},
			{Location: []*profile.Location{ls[1], ls[0]}, Value: []int64{w[0]}, Label: map[string][]string{"k": {"w"}}},
		},
	}
	compose := func(mode string) string {
		vMapOrder(mode)
		g := New(prof, &Options{
			SampleValue: func(v []int64) int64 { return v[0] },
			FormatTag:   func(v int64, unit string) string { return strconv.FormatInt(v, 10) + unit },
		})
		// as report.newTrimmedGraph does before any graph is printed
		g.SortNodes(false, true)
		var buf bytes.Buffer
		ComposeDot(&buf, g, &DotAttributes{}, &DotConfig{
			Title:       "t",
			Labels:      []string{"l"},
			FormatValue: func(v int64) string { return strconv.FormatInt(v, 10) },
			Total:       12,
		})
		return buf.String()
	}
	first := compose("insertion")
	second := compose("reverse")
	third := compose("rotate")
	vMapOrder("")
	vReach("C08.dot:composed")
	vAssert(vAnd(vStrEq(first, second), vStrEq(first, third)), "sched:C08.dot.order: the DOT document depends on map iteration order")
}

func init() { vRegister("VerifC09DotTotals", VerifC09DotTotals) }

// VerifC09DotTotals (property C09): composing a DOT document never panics,
// whatever the report total is relative to the weights - zero (a mean that
// rounds to 0, an empty diff), negative, smaller than an edge - and the
// document stays well formed.
func VerifC09DotTotals() {
	f1 := &profile.Function{ID: 1, Name: "main", Filename: "m.go"}
	f2 := &profile.Function{ID: 2, Name: "work", Filename: "w.go"}
	l1 := &profile.Location{ID: 1, Line: []profile.Line{{Function: f1, Line: 1}}}
	l2 := &profile.Location{ID: 2, Line: []profile.Line{{Function: f2, Line: 2}}}
	w := []int64{10, -10, 1, 0}[vChoice("weight", 4)]
	div := []int64{0, 1, 3}[vChoice("div", 3)]
	prof := &profile.Profile{
		SampleType: []*profile.ValueType{{Type: "delay", Unit: "ns"}, {Type: "count", Unit: "count"}},
		Function:   []*profile.Function{f1, f2}, Location: []*profile.Location{l1, l2},
		Sample: []*profile.Sample{{Location: []*profile.Location{l2, l1}, Value: []int64{w, div}, Label: map[string][]string{"k": {"v"}}, NumLabel: map[string][]int64{"bytes": {4}}}},
	}
	opt := &Options{SampleValue: func(v []int64) int64 { return v[0] }, FormatTag: func(v int64, unit string) string { return strconv.FormatInt(v, 10) + unit }}
	if div != 0 {
		opt.SampleMeanDivisor = func(v []int64) int64 { return v[1] }
	}
	g := New(prof, opt)
	g.SortNodes(false, true)
	total := []int64{0, 1, -5, 20, 1 << 40}[vChoice("total", 5)]
	var buf bytes.Buffer
	ComposeDot(&buf, g, &DotAttributes{}, &DotConfig{Title: "t", Labels: []string{"l"}, Total: total,
		FormatValue: func(v int64) string { return strconv.FormatInt(v, 10) }})
	vReach("C09.dottotals:composed")
	toks, ok := vDotLex(buf.String())
	if ok {
		_, _, ok = vDotParse(toks)
	}
	vAssert(ok, "C09.dottotals.valid: the DOT document is not well formed for this total")
	vObserve(len(toks))
}
