//go:build verif

package graph

import "strconv"

func init() {
	vRegister("VerifC08SortTags", VerifC08SortTags)
	vRegister("VerifC08EdgeSort", VerifC08EdgeSort)
	vRegister("VerifC08NodeSort", VerifC08NodeSort)
}

var vPerms2 = [][]int{{0, 1}, {1, 0}}
var vPerms3 = [][]int{{0, 1, 2}, {0, 2, 1}, {1, 0, 2}, {1, 2, 0}, {2, 0, 1}, {2, 1, 0}}

func vPerms(k int) [][]int {
	if k == 2 {
		return vPerms2
	}
	return vPerms3
}

// VerifC08SortTags: the order SortTags produces must not depend on the order
// in which the tags are handed to it (they come out of a map), i.e. the
// comparator is a strict total order on tags with distinct names.
func VerifC08SortTags() {
	k := vBound("c08.k", 2)
	flat := vChoice("flat", 2) == 1
	names := [][]string{{"a", "b", "c"}, {"method:GET", "method:get", "method:Get"}, {"k:v", "k:v ", "k:"}}[vChoice("names", 3)]
	ts := make([]*Tag, k)
	for i := 0; i < k; i++ {
		n := strconv.Itoa(i)
		ts[i] = &Tag{Name: names[i], Flat: vInt64("flat" + n), Cum: vInt64("cum" + n)}
	}
	var first []*Tag
	for pi, p := range vPerms(k) {
		in := make([]*Tag, k)
		for i, j := range p {
			in[i] = ts[j]
		}
		out := SortTags(in, flat)
		if pi == 0 {
			first = out
			for _, t := range out {
				vObserve(t.Name)
			}
			continue
		}
		for i := range out {
			vAssert(out[i] == first[i], "C08.tags.order: SortTags output depends on the input order of the tags")
		}
	}
}

// VerifC08EdgeSort: EdgeMap.Sort gathers edges from a map; the result must not
// depend on the map's iteration order.
func VerifC08EdgeSort() {
	k := vBound("c08.k", 2)
	// destinations 1 and 2 share the function name and differ only in the line
	infos := []NodeInfo{{Name: "a"}, {Name: "b", File: "x.go", Lineno: 1}, {Name: "b", File: "x.go", Lineno: 2}, {Name: "c"}}
	if vChoice("twins", 2) == 1 {
		// destinations that print alike: overloads with one simplified name, told apart only by
		// their start line / original name (reports that set ObjNames: callgrind, list, raw)
		infos[1] = NodeInfo{Name: "b", OrigName: "b(int)", File: "x.go", StartLine: 10}
		infos[2] = NodeInfo{Name: "b", OrigName: "b(double)", File: "x.go", StartLine: 40}
	}
	nodes := make([]*Node, 4)
	for i := range nodes {
		nodes[i] = &Node{Info: infos[i]}
	}
	// k edges with distinct (src,dest): n0->n1, n0->n2, n1->n2
	pairs := [][2]int{{0, 1}, {0, 2}, {1, 2}}
	es := make([]*Edge, k)
	for i := 0; i < k; i++ {
		es[i] = &Edge{Src: nodes[pairs[i][0]], Dest: nodes[pairs[i][1]], Weight: vInt64("w" + strconv.Itoa(i))}
	}
	var first []*Edge
	for pi, p := range vPerms(k) {
		// EdgeMap is keyed by *Node; build it in permuted insertion order (the engine iterates in insertion order)
		emap := EdgeMap{}
		for _, j := range p {
			emap[&Node{Info: NodeInfo{Name: "k" + strconv.Itoa(j)}}] = es[j]
		}
		out := emap.Sort()
		if pi == 0 {
			first = out
			for _, e := range out {
				vObserve(e.Src.Info.Name, e.Dest.Info.Name, e.Dest.Info.Lineno)
			}
			continue
		}
		for i := range out {
			vAssert(out[i] == first[i], "C08.edges.order: EdgeMap.Sort output depends on map iteration order")
		}
	}
}

// VerifC08NodeSort: every node order must be independent of the input order
// for nodes with distinct Info.
func VerifC08NodeSort() {
	k := vBound("c08.k", 2)
	order := NodeOrder(vChoice("order", 6)) // FlatName, FlatCumName, CumName, Name, File, Address
	infos := []NodeInfo{
		{Name: "f", File: "x.go", Lineno: 1},
		{Name: "f", File: "x.go", Lineno: 2},
		{Name: "g", File: "x.go", Lineno: 1, Address: 16},
	}
	switch vChoice("twins", 5) {
	case 1: // nodes that print alike and differ only in the start line
		infos[0] = NodeInfo{Name: "f", File: "x.go", StartLine: 10}
		infos[1] = NodeInfo{Name: "f", File: "x.go", StartLine: 40}
	case 2: // ... only in the binary
		infos[0] = NodeInfo{Name: "f", File: "x.go", Lineno: 3, Objfile: "/bin/a"}
		infos[1] = NodeInfo{Name: "f", File: "x.go", Lineno: 3, Objfile: "/bin/b"}
	case 3: // ... only in the original (mangled) name
		infos[0] = NodeInfo{Name: "f", OrigName: "_Z1fi", File: "x.go"}
		infos[1] = NodeInfo{Name: "f", OrigName: "_Z1fd", File: "x.go"}
	case 4: // ... only in the column
		infos[0] = NodeInfo{Name: "f", File: "x.go", Lineno: 3, Columnno: 1}
		infos[1] = NodeInfo{Name: "f", File: "x.go", Lineno: 3, Columnno: 9}
	}
	ns := make([]*Node, k)
	for i := 0; i < k; i++ {
		n := strconv.Itoa(i)
		ns[i] = &Node{Info: infos[i], Flat: vInt64("flat" + n), Cum: vInt64("cum" + n)}
	}
	var first Nodes
	for pi, p := range vPerms(k) {
		in := make(Nodes, k)
		for i, j := range p {
			in[i] = ns[j]
		}
		if err := in.Sort(order); err != nil {
			vAssert(false, "C08.nodes.err: Sort returned an error for a valid order")
			return
		}
		if pi == 0 {
			first = in
			for _, n := range in {
				vObserve(n.Info.Lineno, n.Info.Name)
			}
			continue
		}
		for i := range in {
			vAssert(in[i] == first[i], "C08.nodes.order: Nodes.Sort output depends on the input order of the nodes")
		}
	}
}
