//go:build verif

package graph

import (
	"bytes"
	"strconv"
	"strings"

	"github.com/google/pprof/profile"
)

func init() {
	vRegister("VerifC18Dot", VerifC18Dot)
}

// vMetaString returns prefix + n symbolic bytes + suffix where every symbolic
// byte is pinned to one DOT-relevant class: " \ newline < > or an ordinary
// printable character.
func vMetaString(tag, prefix, suffix string, n int) string {
	b := []byte(prefix)
	for i := 0; i < n; i++ {
		c := vByte(tag + strconv.Itoa(i))
		switch vChoice(tag+strconv.Itoa(i)+".cls", 6) {
		case 0:
			vAssume(c == '"')
		case 1:
			vAssume(c == '\\')
		case 2:
			vAssume(c == '\n')
		case 3:
			vAssume(c == '<')
		case 4:
			vAssume(c == '>')
		case 5:
			vAssume(c >= 'a')
			vAssume(c <= 'z')
		}
		b = append(b, c)
	}
	return string(append(b, suffix...))
}

// ---- an independent, minimal DOT reader ----

type vDotTok struct {
	kind byte // 'i' identifier/number, 's' quoted string, or the punctuation itself; '>' for "->"
	text string
}

// vDotLex tokenizes s; ok=false on an unterminated string or a stray character.
func vDotLex(s string) ([]vDotTok, bool) {
	var toks []vDotTok
	i := 0
	for i < len(s) {
		c := s[i]
		switch {
		case c == ' ' || c == '\n' || c == '\t' || c == '\r':
			i++
		case c == '"':
			j := i + 1
			for {
				if j >= len(s) {
					return nil, false
				}
				if s[j] == '\\' && j+1 < len(s) {
					j += 2
					continue
				}
				if s[j] == '"' {
					break
				}
				j++
			}
			toks = append(toks, vDotTok{'s', s[i+1 : j]})
			i = j + 1
		case c == '-' && i+1 < len(s) && s[i+1] == '>':
			toks = append(toks, vDotTok{'>', "->"})
			i += 2
		case c == '{' || c == '}' || c == '[' || c == ']' || c == '=' || c == ';' || c == ',':
			toks = append(toks, vDotTok{c, string(c)})
			i++
		case c == '_' || c == '.' || c == '-' || c == '#' || (c >= '0' && c <= '9') || (c >= 'a' && c <= 'z') || (c >= 'A' && c <= 'Z') || c >= 0x80:
			j := i
			for j < len(s) && (s[j] == '_' || s[j] == '.' || s[j] == '-' || s[j] == '#' || (s[j] >= '0' && s[j] <= '9') || (s[j] >= 'a' && s[j] <= 'z') || (s[j] >= 'A' && s[j] <= 'Z') || s[j] >= 0x80) {
				j++
			}
			if s[i] == '-' && j == i+1 {
				return nil, false
			}
			toks = append(toks, vDotTok{'i', s[i:j]})
			i = j
		default:
			return nil, false
		}
	}
	return toks, true
}

// vDotParse checks  digraph ID { stmt* }  with stmt = node | edge | attr | subgraph
// and returns the declared node ids and the edge endpoints.
func vDotParse(toks []vDotTok) (nodes map[string]bool, edges [][2]string, ok bool) {
	nodes = map[string]bool{}
	p := 0
	peek := func() byte {
		if p < len(toks) {
			return toks[p].kind
		}
		return 0
	}
	isID := func() bool { return peek() == 'i' || peek() == 's' }
	attrList := func() bool {
		if peek() != '[' {
			return true
		}
		p++
		for peek() != ']' {
			if !isID() {
				return false
			}
			p++
			if peek() != '=' {
				return false
			}
			p++
			if !isID() {
				return false
			}
			p++
			if peek() == ',' || peek() == ';' {
				p++
			}
		}
		p++
		return true
	}
	var stmts func() bool
	stmts = func() bool {
		for peek() != '}' {
			if peek() == 0 {
				return false
			}
			if !isID() {
				return false
			}
			first := toks[p]
			p++
			switch {
			case first.kind == 'i' && first.text == "subgraph":
				if isID() {
					p++
				}
				if peek() != '{' {
					return false
				}
				p++
				if !stmts() {
					return false
				}
				p++
			case first.kind == 'i' && (first.text == "node" || first.text == "edge" || first.text == "graph") && peek() == '[':
				if !attrList() {
					return false
				}
			case peek() == '>':
				p++
				if !isID() {
					return false
				}
				edges = append(edges, [2]string{first.text, toks[p].text})
				p++
				if !attrList() {
					return false
				}
			default:
				nodes[first.text] = true
				if !attrList() {
					return false
				}
			}
			if peek() == ';' {
				p++
			}
		}
		return true
	}
	if p >= len(toks) || toks[p].kind != 'i' || toks[p].text != "digraph" {
		return nil, nil, false
	}
	p++
	if !isID() {
		return nil, nil, false
	}
	p++
	if peek() != '{' {
		return nil, nil, false
	}
	p++
	if !stmts() {
		return nil, nil, false
	}
	p++
	return nodes, edges, p == len(toks)
}

// VerifC18Dot: the DOT document stays syntactically valid when one
// profile-derived string carries DOT metacharacters.
func VerifC18Dot() {
	where := vChoice("where", vBound("c18.sites", 7)) // 6: no metacharacter, but a label set whose weights cancel
	n := vBound("c18.bytes", 1)
	str := func(site int, tag, prefix, suffix string) string {
		if where == site {
			return vMetaString(tag, prefix, suffix, n)
		}
		return prefix + suffix
	}
	title := str(0, "title", "bi", "n")
	legend := str(1, "legend", "File: ", "x")
	fname := str(2, "func", "ma", "in")
	if where == 9 {
		// a very long function name with the metacharacters at the distances from its
		// end where a length cap (64, 128, 256 bytes) would cut
		tails := []int{62, 63, 126, 127, 254, 255}
		tail := strings.Repeat("t", tails[vChoice("tail", len(tails))])
		fname = vMetaString("func", "longname", tail, n)
	}
	file := str(3, "file", "fi", "le.go")
	tagName := str(4, "tag", "k:v", "")
	if where == 7 {
		// a long label value with the metacharacters at any alignment (line wrapping, truncation)
		pad := "k:" + "vvvvvvvvvvvvvvvvvvvvvvvvvv"[:19+vChoice("pad", 6)]
		tagName = vMetaString("tag", pad, "tail", n)
	}
	numTagName := str(5, "numtag", "k", "")

	objName := str(8, "objfile", "li", "b.so")
	// the graph is built from a profile, as reports do
	f1 := &profile.Function{ID: 1, Name: fname, Filename: file}
	f2 := &profile.Function{ID: 2, Name: "leaf"}
	l1 := &profile.Location{ID: 1, Line: []profile.Line{{Function: f1, Line: 3}}}
	l2 := &profile.Location{ID: 2, Line: []profile.Line{{Function: f2}}}
	if where == 8 {
		// an unsymbolized frame: the node is named after its binary
		l2 = &profile.Location{ID: 2, Address: 0x40, Mapping: &profile.Mapping{ID: 1, File: "/usr/lib/" + objName}}
	}
	labelKey, labelVal := "k", "v"
	if i := strings.IndexByte(tagName, ':'); i >= 0 {
		labelKey, labelVal = tagName[:i], tagName[i+1:]
	}
	prof := &profile.Profile{
		SampleType: []*profile.ValueType{{Type: "samples", Unit: "count"}},
		Function:   []*profile.Function{f1, f2},
		Location:   []*profile.Location{l1, l2},
		Sample: []*profile.Sample{
			{Location: []*profile.Location{l2, l1}, Value: []int64{10}, Label: map[string][]string{labelKey: {labelVal}}, NumLabel: map[string][]int64{"bytes": {1}}, NumUnit: map[string][]string{"bytes": {numTagName}}},
			{Location: []*profile.Location{l1}, Value: []int64{10}},
		},
	}
	if where == 6 {
		// a diff-like profile: the same stack and label set with weights +5 and -5, different numeric labels
		prof.Sample = append(prof.Sample,
			&profile.Sample{Location: []*profile.Location{l2, l1}, Value: []int64{5}, Label: map[string][]string{"z": {"w"}}, NumLabel: map[string][]int64{"bytes": {3}}, NumUnit: map[string][]string{"bytes": {"kB"}}},
			&profile.Sample{Location: []*profile.Location{l2, l1}, Value: []int64{-5}, Label: map[string][]string{"z": {"w"}}, NumLabel: map[string][]int64{"bytes": {4}}, NumUnit: map[string][]string{"bytes": {"kB"}}})
	}
	g := New(prof, &Options{
		SampleValue: func(v []int64) int64 { return v[0] },
		FormatTag:   func(v int64, unit string) string { return strconv.FormatInt(v, 10) + unit },
	})
	cfg := &DotConfig{
		Title:       title,
		Labels:      []string{legend, "Type: cpu"},
		FormatValue: func(v int64) string { return strconv.FormatInt(v, 10) },
		Total:       20,
	}
	var buf bytes.Buffer
	ComposeDot(&buf, g, &DotAttributes{}, cfg)
	out := buf.String()
	vReach("C18.dot:composed")
	sites := []string{"graph title", "legend line", "function name", "file name", "label value", "numeric label unit", "(cancelling label weights)", "long label value", "binary name of an unsymbolized frame", "very long function name"}
	toks, ok := vDotLex(out)
	if !ok {
		vAssert(false, "C18.dot.lex."+strconv.Itoa(where)+": DOT output does not tokenize (unterminated string or stray character) with metacharacters in the "+sites[where])
		return
	}
	nodes, edges, ok := vDotParse(toks)
	if !ok {
		vAssert(false, "C18.dot.parse."+strconv.Itoa(where)+": DOT output is not a valid document with metacharacters in the "+sites[where])
		return
	}
	for _, ed := range edges {
		vAssert(nodes[ed[0]] && nodes[ed[1]], "C18.dot.edge: an edge refers to an undeclared node")
	}
	vAssert(nodes["N1"] && nodes["N2"] && len(edges) >= 1, "C18.dot.content: nodes or edges are missing from the document")
	vObserve(len(toks), len(nodes), len(edges))
}
